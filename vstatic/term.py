"""Hash-consed symbolic terms (E0/E8 value universe).

A Term is an immutable, interned node  op(args) : sort.  Terms are what the
abstract evaluator produces whenever a value depends on a symbolic input.  They
are never evaluated on concrete data; rules compare them structurally (normal
forms) and the evaluator consults recorded branch facts about boolean terms.

Sorts: int, bool, bytes, seq, field, point, hashfn, none, any.
"""
from __future__ import annotations


class AnalysisError(Exception):
    """The analysed region contains something outside the handled fragment, or
    an anchor vanished.  Checks turn this into exit code 2 (never a pass)."""


class HistoryDependence(AnalysisError):
    """The walked code returns a value read from state that an earlier call wrote under a key that does not determine it
    (or absorbs data into a shared hash object): the result depends on the call history.  Reported as a violation of the
    property whose analysis walked that code."""

    def __init__(self, construct, key, detail, where):
        super().__init__(f"{where}: {construct} [{key}] {detail}")
        self.construct, self.key, self.detail, self.where = construct, key, detail, where
        HISTORY.append(self)


HISTORY = []          # HistoryDependence findings of this run
SHARED_SEEN = {}      # (module, name) -> (kind, detail, function) for every shared container the walk read


class AbstractValue:
    """Marker base class: values the evaluator must not treat as concrete."""
    __slots__ = ()


class Term(AbstractValue):
    __slots__ = ("op", "args", "sort", "_h", "__weakref__")
    _table: dict = {}

    def __new__(cls, op, args=(), sort="any"):
        args = tuple(args)
        key = (op, args, sort)
        try:
            t = cls._table.get(key)
        except TypeError:
            raise AnalysisError(f"unhashable term argument in {op}: {args!r}")
        if t is None:
            t = object.__new__(cls)
            t.op = op
            t.args = args
            t.sort = sort
            t._h = hash(key)
            cls._table[key] = t
        return t

    def __hash__(self):
        return self._h

    def __eq__(self, other):
        return self is other

    def __ne__(self, other):
        return self is not other

    def __repr__(self):
        return show(self)

    def __deepcopy__(self, memo):
        return self

    def __copy__(self):
        return self

    def __bool__(self):
        raise AnalysisError(f"python truth value of symbolic term {self!r} requested")


def is_sym(v):
    return isinstance(v, AbstractValue)


def show(v, depth=0):
    if isinstance(v, Term):
        if depth > 6:
            return f"{v.op}(…)"
        if v.op == "var":
            return str(v.args[0])
        if v.op == "const":
            return show(v.args[0])
        return f"{v.op}(" + ", ".join(show(a, depth + 1) for a in v.args) + ")"
    if isinstance(v, (bytes, bytearray)):
        b = bytes(v)
        if len(b) > 12 and len(set(b)) == 1:
            return f"{b[:1]!r}*{len(b)}"
        if len(b) > 48:
            return repr(b[:20]) + f"…[{len(b)}]"
        return repr(b)
    if isinstance(v, int) and not isinstance(v, bool) and abs(v) > 10**12:
        return hex(v) if abs(v) < 2**80 else f"<int {v.bit_length()}b …{v % 10**6}>"
    if isinstance(v, tuple):
        return "(" + ", ".join(show(a, depth + 1) for a in v) + ")"
    if isinstance(v, list):
        return "[" + ", ".join(show(a, depth + 1) for a in v) + "]"
    return repr(v)


def var(name, sort="any"):
    return Term("var", (name,), sort)


def sort_of(v):
    if isinstance(v, Term):
        return v.sort
    if isinstance(v, bool):
        return "bool"
    if isinstance(v, int):
        return "int"
    if isinstance(v, (bytes, bytearray)):
        return "bytes"
    if v is None:
        return "none"
    if isinstance(v, (tuple, list)):
        return "seq"
    s = getattr(v, "sort", None)
    return s if isinstance(s, str) else "any"


# ----------------------------------------------------------------------------
# bytes terms
# ----------------------------------------------------------------------------

def t_concat(parts):
    """Associative concatenation with unit; adjacent constants merged."""
    flat = []
    for p in parts:
        if isinstance(p, bytearray):
            p = bytes(p)
        if isinstance(p, Term) and p.op == "concat":
            flat.extend(p.args)
        else:
            flat.append(p)
    out = []
    for p in flat:
        if isinstance(p, bytes):
            if not p:
                continue
            if out and isinstance(out[-1], bytes):
                out[-1] = out[-1] + p
                continue
        out.append(p)
    if not out:
        return b""
    if len(out) == 1:
        return out[0]
    return Term("concat", out, "bytes")


LEN_OF_OP = {}     # op -> fixed byte length, registered by models after analysing the encoder


def t_len(v):
    if isinstance(v, (bytes, bytearray, tuple, list)):
        return len(v)
    if isinstance(v, Term) and v.op in LEN_OF_OP:
        return LEN_OF_OP[v.op]
    if hasattr(v, "sym_len"):
        return v.sym_len()
    if isinstance(v, Term):
        if v.op == "concat":
            return t_sum([t_len(a) for a in v.args])
        if v.op == "i2osp":
            return v.args[1]
        if v.op == "bytes_of_list":
            return len(v.args)
        if v.op in ("H", "HMAC"):
            return t_digest_size(v.args[0])
        if v.op == "repeat":
            return t_arith("mul", t_len(v.args[0]), v.args[1])
        if v.op == "xor":
            return t_min(t_len(v.args[0]), t_len(v.args[1]))
        if v.op == "slice":
            base, lo, hi = v.args
            bl = t_len(base)
            if isinstance(lo, int) and isinstance(hi, int) and isinstance(bl, int):
                return len(range(bl)[lo:hi])
            if lo == 0 and hi is not None and "le_len" in v.args[3:]:
                return hi
        return Term("len", (v,), "int")
    raise AnalysisError(f"len of {v!r}")


def t_min(a, b):
    if isinstance(a, int) and isinstance(b, int):
        return min(a, b)
    if a is b:
        return a
    return Term("min", tuple(sorted((a, b), key=repr)), "int")


def t_digest_size(h):
    ds = getattr(h, "digest_size", None)
    if isinstance(ds, int):
        return ds
    return Term("digest_size", (h,), "int")


def t_block_size(h):
    bs = getattr(h, "block_size", None)
    if isinstance(bs, int):
        return bs
    return Term("block_size", (h,), "int")


def t_sum(xs):
    c = 0
    rest = []
    for x in xs:
        if isinstance(x, int):
            c += x
        else:
            rest.append(x)
    if not rest:
        return c
    r = rest[0]
    for x in rest[1:]:
        r = t_arith("add", r, x)
    return t_arith("add", r, c) if c else r


# ----------------------------------------------------------------------------
# integer terms (opaque arithmetic with light folding)
# ----------------------------------------------------------------------------
_COMM = {"add", "mul", "and", "or", "xor"}


def t_arith(op, a, b):
    if isinstance(a, bool):
        a = int(a)
    if isinstance(b, bool):
        b = int(b)
    if isinstance(a, int) and isinstance(b, int):
        return _concrete_arith(op, a, b)
    if op == "add":
        if a == 0 and isinstance(a, int):
            return b
        if b == 0 and isinstance(b, int):
            return a
    if op == "sub" and isinstance(b, int) and b == 0:
        return a
    if op == "mul":
        if isinstance(a, int) and a == 1:
            return b
        if isinstance(b, int) and b == 1:
            return a
    if op in _COMM and isinstance(a, int):
        a, b = b, a          # constants to the right
    return Term(op, (a, b), "int")


def _concrete_arith(op, a, b):
    import operator as o
    f = {"add": o.add, "sub": o.sub, "mul": o.mul, "floordiv": o.floordiv,
         "mod": o.mod, "pow": o.pow, "lshift": o.lshift, "rshift": o.rshift,
         "and": o.and_, "or": o.or_, "xor": o.xor, "truediv": o.truediv}[op]
    try:
        return f(a, b)
    except ZeroDivisionError:
        raise AnalysisError("concrete division by zero inside analysed region")


# ----------------------------------------------------------------------------
# boolean terms.  Atoms are eq / lt / isinstance / isnone / in / opaque calls;
# everything else is expressed with 'not'.
# ----------------------------------------------------------------------------

def t_not(c):
    if isinstance(c, bool):
        return not c
    if isinstance(c, Term) and c.op == "not":
        return c.args[0]
    return Term("not", (c,), "bool")


def _ord_key(x):
    return (0, repr(x)) if not isinstance(x, Term) else (1, x._h, repr(x))


def _c_minus_x(t):
    """(c, x) if t is the integer term c − x with a constant c"""
    if isinstance(t, Term) and t.op == "sub" and len(t.args) == 2 and isinstance(t.args[0], int) \
            and not isinstance(t.args[0], bool) and isinstance(t.args[1], Term) and t.args[1].sort in ("int", "any"):
        return t.args
    return None


def _plain_int(v):
    return isinstance(v, int) and not isinstance(v, bool)


def t_eq(a, b):
    if not is_sym(a) and not is_sym(b):
        return a == b
    if a is b:
        return True
    for u, v in ((a, b), (b, a)):
        cx = _c_minus_x(u)
        if cx is not None and _plain_int(v):          # c − x == v  ⇔  x == c − v
            return t_eq(cx[1], cx[0] - v)
    x, y = sorted((a, b), key=_ord_key)
    return Term("eq", (x, y), "bool")


def t_xor(a, b):
    """byte-wise xor of two byte strings (commutative: operands in canonical order)"""
    x, y = sorted((a, b), key=_ord_key)
    return Term("xor", (x, y), "bytes")


def t_lt(a, b):
    if not is_sym(a) and not is_sym(b):
        return a < b
    cx = _c_minus_x(a)
    if cx is not None and _plain_int(b):              # c − x < b  ⇔  c − b < x
        return t_lt(cx[0] - b, cx[1])
    cx = _c_minus_x(b)
    if cx is not None and _plain_int(a):              # a < c − x  ⇔  x < c − a
        return t_lt(cx[1], cx[0] - a)
    return Term("lt", (a, b), "bool")


def t_cmp(op, a, b):
    """op in == != < <= > >=  -> normalised boolean term / concrete bool"""
    if op == "==":
        return t_eq(a, b)
    if op == "!=":
        return t_not(t_eq(a, b))
    if op == "<":
        return t_lt(a, b)
    if op == ">":
        return t_lt(b, a)
    if op == "<=":
        return t_not(t_lt(b, a))
    if op == ">=":
        return t_not(t_lt(a, b))
    raise AnalysisError(f"comparison {op}")


def atom_of(c):
    """split a boolean term into (atom, polarity)"""
    pol = True
    while isinstance(c, Term) and c.op == "not":
        c = c.args[0]
        pol = not pol
    return c, pol


def subterms(t, seen=None):
    if seen is None:
        seen = set()
    stack = [t]
    while stack:
        x = stack.pop()
        if isinstance(x, Term):
            if x in seen:
                continue
            seen.add(x)
            yield x
            stack.extend(x.args)
        elif isinstance(x, (tuple, list)):
            stack.extend(x)


def substitute(t, mapping):
    """replace sub-terms by mapping (dict Term -> value)"""
    memo = {}

    def go(x):
        if isinstance(x, Term):
            if x in mapping:
                return mapping[x]
            r = memo.get(x)
            if r is None:
                r = Term(x.op, tuple(go(a) for a in x.args), x.sort)
                memo[x] = r
            return r
        if isinstance(x, tuple):
            return tuple(go(a) for a in x)
        return x
    return go(t)


def t_slice(base, lo, hi):
    """normal form of base[lo:hi] for byte strings (lo, hi >= 0 or None)"""
    if isinstance(base, bytearray):
        base = bytes(base)
    lo = 0 if lo is None else lo
    n = t_len(base)
    if hi is None:
        hi = n
    if isinstance(base, bytes) and isinstance(lo, int) and isinstance(hi, int):
        return base[lo:hi]
    if isinstance(lo, int) and isinstance(hi, int) and 0 <= hi <= lo:
        return b""
    if isinstance(lo, int) and isinstance(hi, int) and lo >= 0 and hi >= 0:
        parts = list(base.args) if isinstance(base, Term) and base.op == "concat" else [base]
        out, pos, ok = [], 0, True
        for p in parts:
            pl = t_len(p)
            if not isinstance(pl, int):
                ok = False
                break
            a, bnd = max(lo, pos), min(hi, pos + pl)
            if a < bnd:
                if a == pos and bnd == pos + pl:
                    out.append(p)
                elif isinstance(p, bytes):
                    out.append(p[a - pos: bnd - pos])
                else:
                    out.append(Term("slice", (p, a - pos, bnd - pos), "bytes"))
            pos += pl
            if pos >= hi:
                break
        if ok:
            return t_concat(out)
    if isinstance(lo, int) and lo == 0 and hi is n:
        return base
    return Term("slice", (base, lo, hi), "bytes")
