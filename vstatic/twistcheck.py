"""C07.R4: twist maps curve points of E'(F_p^2) to curve points of E(F_p^12),
as a ring embedding times units (hence injective)."""
from __future__ import annotations

from .term import AnalysisError
from .poly import Poly
from .interp import Interp, World
from .fieldmodel import FieldVal
from .tower import TowerSym, tower_ctor_hook


def oracle_embedding(p, mc2, mc12):
    """i |-> w^6 - c with c from the folded degree-12 modulus w^12 + m6 w^6 + m0"""
    if tuple(mc2) != (1, 0):
        raise AnalysisError(f"FQ2 modulus is not i^2 + 1: {mc2}")
    m0, m6 = mc12[0], mc12[6]
    if any(mc12[i] for i in range(12) if i not in (0, 6)):
        raise AnalysisError(f"FQ12 modulus is not w^12 + m6 w^6 + m0: {mc12}")
    if m6 % 2:
        raise AnalysisError("odd w^6 coefficient")
    c = -m6 // 2
    if m0 != c * c + 1:
        raise AnalysisError(f"FQ12 modulus {mc12} does not contain a square root of -1 of the form w^6 - c")

    def emb(t2: TowerSym):
        a, b = t2.c
        coeffs = [Poly.const(0, p)] * 12
        coeffs[0] = a - b * c
        coeffs[6] = b
        return TowerSym(coeffs, mc12, p)
    return emb, c


def check_twist(world: World, repo, modname, projective):
    """returns list of (key, ok, detail)"""
    it = Interp(world, class_hooks=[tower_ctor_hook])
    m = repo.module(modname)
    f = repo.func(f"{modname}.twist")
    FQ2 = it.eval_global(m, "FQ2")
    FQ12 = it.eval_global(m, "FQ12")
    p = it.class_attr(FQ2, "field_modulus")
    mc2 = it.class_attr(FQ2, "FQ2_MODULUS_COEFFS")
    mc12 = it.class_attr(FQ12, "FQ12_MODULUS_COEFFS")
    b2 = it.eval_global(m, "b2")
    b12 = it.eval_global(m, "b12")
    res = []
    emb, c = oracle_embedding(p, mc2, mc12)

    def sym2(n):
        return TowerSym([Poly.var(f"{n}0", p), Poly.var(f"{n}1", p)], mc2, p, FQ2)

    def const12(v: FieldVal):
        return TowerSym(v.v, mc12, p, FQ12)

    def const2(v: FieldVal):
        return TowerSym(v.v, mc2, p, FQ2)
    x, y, z = sym2("x"), sym2("y"), sym2("z")
    # oracle self-check: emb is multiplicative and unital
    u, v = sym2("u"), sym2("v")
    res.append(("oracle embedding i ↦ w^6 − c is a ring homomorphism", emb(u).mul(emb(v)).equals(emb(u.mul(v)))
                and emb(TowerSym([1, 0], mc2, p)).equals(TowerSym([1] + [0] * 11, mc12, p)), f"c = {c}"))
    pt = (x, y, z) if projective else (x, y)
    out = it.call_func(f, [pt], {})
    if not (isinstance(out, tuple) and len(out) == len(pt) and all(isinstance(o, TowerSym) and len(o.c) == 12 for o in out)):
        res.append(("twist returns FQ12 coordinates", False, f"got {out!r}"[:200]))
        return res, f
    w = TowerSym([0, 1] + [0] * 10, mc12, p)
    winv = const12(FieldVal(FQ12, "FQP", True, p, tuple(mm % p for mm in mc12), (0, 1) + (0,) * 10).inv())

    def wpow(j):
        r = TowerSym([1] + [0] * 11, mc12, p)
        base = w if j >= 0 else winv
        for _ in range(abs(j)):
            r = r.mul(base)
        return r
    # each coordinate is emb(coordinate) times a power of w (a unit): injective
    exps = []
    for name, src, dst in zip("xyz", pt, out):
        e = emb(src)
        found = None
        for j in range(-6, 12):
            if e.mul(wpow(j)).equals(dst):
                found = j
                break
        exps.append(found)
        res.append((f"{name}-coordinate is emb({name})·w^j (unit multiple of a ring embedding ⇒ injective)", found is not None,
                    f"j = {found}" if found is not None else f"twisted {name} = {dst!r}"[:200]))
    if any(e is None for e in exps):
        return res, f
    # curve equation is carried over: E12(twist(P)) = w^k · emb(E2(P))
    B2, B12 = const2(b2), const12(b12)
    if projective:
        X, Y, Z = out
        E12 = Y.mul(Y).mul(Z)._mk([a - b_ for a, b_ in zip(Y.mul(Y).mul(Z).c, (X.mul(X).mul(X)).c)])
        E12 = E12._mk([a - b_ for a, b_ in zip(E12.c, B12.mul(Z.mul(Z).mul(Z)).c)])
        e2 = y.mul(y).mul(z)
        e2 = e2._mk([a - b_ for a, b_ in zip(e2.c, x.mul(x).mul(x).c)])
        e2 = e2._mk([a - b_ for a, b_ in zip(e2.c, B2.mul(z.mul(z).mul(z)).c)])
    else:
        X, Y = out
        E12 = Y.mul(Y)._mk([a - b_ for a, b_ in zip(Y.mul(Y).c, X.mul(X).mul(X).c)])
        E12 = E12._mk([a - b_ for a, b_ in zip(E12.c, B12.c)])
        e2 = y.mul(y)
        e2 = e2._mk([a - b_ for a, b_ in zip(e2.c, x.mul(x).mul(x).c)])
        e2 = e2._mk([a - b_ for a, b_ in zip(e2.c, B2.c)])
    ee = emb(e2)
    k = None
    for j in range(-12, 24):
        if ee.mul(wpow(j)).equals(E12):
            k = j
            break
    res.append(("curve equation carried over: E12(twist(P)) = w^k · emb(E'(P)), so twist maps curve points to curve points",
                k is not None, f"k = {k}" if k is not None else "no unit multiple matches"))
    return res, f
