"""Formal group domain + double-and-add schema checker (C07.R3, C18.R2) and
group-level term evaluation for the ECDSA rules (C06, C19)."""
from __future__ import annotations

from .term import AnalysisError, AbstractValue, Term, var, show, atom_of
from .poly import Poly
from .interp import Interp, World, enumerate_paths
from .ranges import interval_of_facts, INF


class GroupSym(AbstractValue):
    """Z-linear combination of symbolic base points with polynomial scalars"""
    sort = "point"

    def __init__(self, comb):
        self.comb = {b: c for b, c in comb.items() if not c.is_zero()}

    @staticmethod
    def base(name):
        return GroupSym({name: Poly.const(1)})

    def plus(self, o):
        r = dict(self.comb)
        for b, c in o.comb.items():
            r[b] = r.get(b, Poly.const(0)) + c
        return GroupSym(r)

    def times(self, k: Poly):
        return GroupSym({b: c * k for b, c in self.comb.items()})

    def v_index(self, idx, it):
        return CoordOf(self, idx)

    def v_unpack(self, n, it):
        return [CoordOf(self, i) for i in range(n)]

    def v_identity(self, other, it):
        """`pt is CONST` for the generic point: either outcome; when it holds, P stands for that constant on the path
        (the table ladder rule reads the alias back from the path facts)"""
        if self.comb != {"P": Poly.const(1)} or not _concrete_point(other):
            return NotImplemented
        it.world.__dict__.setdefault("alias_objs", {})[id(other)] = other
        return Term("same_object", ("P", id(other)), "bool")

    def __repr__(self):
        return " + ".join(f"[{c!r}]{b}" for b, c in self.comb.items()) or "O"

    def __deepcopy__(self, memo):
        return self


class CoordClass(AbstractValue):
    """the (unknown) field class of a formal coordinate: only its constants one()/zero() are used"""
    sort = "class"

    def v_getattr(self, name, it):
        if name in ("one", "zero"):
            return lambda: CoordConst(name)
        raise AnalysisError(f"attribute {name} of the class of a formal coordinate")


class CoordOf(AbstractValue):
    sort = "field"

    def __init__(self, pt, idx):
        self.pt, self.idx = pt, idx

    def v_getattr(self, name, it):
        if name in ("one", "zero"):
            return lambda: CoordConst(name)
        if name == "__class__":
            return CoordClass()
        raise AnalysisError(f"attribute {name} of a formal coordinate")

    def v_type(self, it):
        return CoordClass()

    def v_compare(self, op, other, it):
        if ((isinstance(other, int) and other == 0) or (isinstance(other, CoordConst) and other.which == "zero")) and op in ("==", "!="):
            t = Term("coord_is_zero", (id(self.pt), self.idx), "bool")
            return t if op == "==" else Term("not", (t,), "bool")
        return NotImplemented

    def v_truth(self, it):
        return Term("not", (Term("coord_is_zero", (id(self.pt), self.idx), "bool"),), "bool")


class CoordConst(AbstractValue):
    sort = "field"

    def __init__(self, which):
        self.which = which


def is_symv(v):
    from .term import is_sym
    return is_sym(v)


def classify_point(v):
    """-> GroupSym for group values, identity encodings -> GroupSym({})"""
    if isinstance(v, GroupSym):
        return v
    if v is None:
        return GroupSym({})
    if isinstance(v, tuple) and len(v) == 3:
        if isinstance(v[2], CoordConst) and v[2].which == "zero":
            return GroupSym({})              # projective (., ., 0)
        if isinstance(v[0], int) and isinstance(v[1], int) and v[0] == 0 and v[1] == 0:
            return GroupSym({})              # Jacobian marker (0, 0, *)
        if _concrete_point(v) and _fv_zero(v[2]):
            return GroupSym({})              # a projective constant (., ., 0) of the module (Z1, Z2)
    return None


def _concrete_point(v):
    from .fieldmodel import FieldVal
    return isinstance(v, tuple) and len(v) in (2, 3) and all(isinstance(c, FieldVal) for c in v)


def _fv_zero(c):
    return c.v == 0 if c.kind == "FQ" else all(x == 0 for x in c.v)


def _alias_of(it):
    """the module constant the generic point was found identical with on this path, or None"""
    reg = it.world.__dict__.get("alias_objs", {})
    for a, t in it.facts.items():
        if isinstance(a, Term) and a.op == "same_object" and a.args[0] == "P" and t is True and a.args[1] in reg:
            return reg[a.args[1]]
    return None


def _affine_int(pt):
    """(x, y) integers of a concrete prime-field point (projective (x : y : z) or affine), None for the identity"""
    from .nt import inv_mod
    if any(c.kind != "FQ" for c in pt):
        raise AnalysisError("table ladder over an extension-field base point: outside the schema")
    p = pt[0].p
    if len(pt) == 2:
        return (pt[0].v % p, pt[1].v % p), p
    if pt[2].v % p == 0:
        return None, p
    zi = inv_mod(pt[2].v, p)
    return (pt[0].v * zi % p, pt[1].v * zi % p), p


def _double_affine(A, p):
    from .nt import inv_mod
    if A is None:
        return None
    x, y = A
    if y == 0:
        return None
    lam = 3 * x * x * inv_mod(2 * y, p) % p          # curves y² = x³ + b (a = 0): all four pairing curves
    x3 = (lam * lam - 2 * x) % p
    return (x3, (lam * (x - x3) - y) % p)


def _ladder_table(it, st, seq, fr, n, notes, order=None):
    """fixed-base table:  for i, entry in enumerate(T): if bit i of n: R = R + entry   with T[i] = 2^i·B a module constant,
    reached on a path where the generic point was found identical with B.  Σ_i bit_i(n)·2^i·B = (n mod 2^len(T))·B"""
    import ast as _ast
    from .interp import _assigned_names, _Break, _Continue
    if not (isinstance(seq, list) and len(seq) >= 2 and isinstance(st.target, _ast.Tuple) and len(st.target.elts) == 2
            and all(isinstance(e, _ast.Name) for e in st.target.elts)
            and all(isinstance(x, tuple) and len(x) == 2 and isinstance(x[0], int) and _concrete_point(x[1]) for x in seq)
            and [x[0] for x in seq] == list(range(len(seq)))):
        return NotImplemented
    where = it.where(st)
    base = _alias_of(it)
    if base is None:
        raise AnalysisError(f"{where}: loop over a table of constant points with no relation to the point being multiplied")
    L = len(seq)
    B, p = _affine_int(base)
    cur, okT = B, True
    for i, ent in seq:
        E, _p = _affine_int(ent)
        if E != cur:
            okT = False
            break
        cur = _double_affine(cur, p)
    notes.append((f"table ladder {where}: entry i is 2^i·B for the constant B the point was found identical with ({L} entries, "
                  f"checked with the checker's own arithmetic)", okT, "" if okT else f"entry {i} is not 2^{i}·B"))
    iname, ename = st.target.elts[0].id, st.target.elts[1].id
    carried = [nm for nm in sorted(_assigned_names(st.body)) if nm in fr.env and nm not in (iname, ename)]
    pts = [nm for nm in carried if _coef(fr.env[nm]) is not None]
    if len(carried) != 1 or len(pts) != 1:
        raise AnalysisError(f"{where}: table loop carries {carried}: expected exactly one accumulator point")
    R = pts[0]
    k0 = _coef(fr.env[R])
    i = var("i", "int")
    pres = True
    saved, sfacts = dict(fr.env), dict(it.facts)
    for b in (0, 1):
        fr.env.clear(); fr.env.update(saved)
        it.facts.clear(); it.facts.update(sfacts)
        fr.env[iname] = i
        fr.env[ename] = GroupSym({"E": Poly.const(1)})
        fr.env[R] = GroupSym({"P": Poly.var("K")})
        sh = Term("rshift", (n, i), "int")
        for bit in (t_arith_and(sh, 1), Term("mod", (sh, 2), "int"), Term("and", (n, Term("lshift", (1, i), "int")), "int")):
            _bit_facts(it, bit, b)
        nt = len(it.oracle.trace)
        try:
            it.exec_block(st.body, fr)
        except (_Break, _Continue):
            pres = False
        if len(it.oracle.trace) != nt:
            raise AnalysisError(f"{where}: the table loop tests something other than bit i of the scalar")
        g = classify_point(fr.env.get(R))
        want = {"P": Poly.var("K")}
        if b:
            want["E"] = Poly.const(1)
        if g is None or {k: repr(v) for k, v in g.comb.items()} != {k: repr(v) for k, v in want.items()}:
            pres = False
    fr.env.clear(); fr.env.update(saved)
    it.facts.clear(); it.facts.update(sfacts)
    notes.append((f"table ladder {where}: each round adds entry i exactly when bit i of n is set", pres, ""))
    flo, fhi, fholes, _ = interval_of_facts(list(it.facts.items()), n)
    if order is None:
        flo = max(flo, 0)
    bounded = flo >= 0 and fhi < (1 << L)
    notes.append((f"table ladder {where}: the scalar fits the table (0 <= n < 2^{L}); otherwise the loop returns (n mod 2^{L})·B", bounded,
                  "" if bounded else f"n is bounded by [{flo}, {fhi}] on this path: bits at positions >= {L} are dropped"))
    ok = okT and pres
    scal = Poly.var("n") if (ok and bounded) else Poly.var(f"n_mod_2^{L}" if ok else "unverified_ladder")
    fr.env[R] = GroupSym({"P": k0 + scal})
    fr.env[iname] = L - 1
    fr.env[ename] = GroupSym({"P": Poly.var("unused_table_entry")})
    return None




def scalar_poly(t, order=None):
    """integer term -> polynomial over the atoms n, h = n//2, b = n%2, nmodN"""
    if isinstance(t, bool):
        t = int(t)
    if isinstance(t, int):
        return Poly.const(t)
    if isinstance(t, Term):
        if t.op == "var":
            return Poly.var(t.args[0])
        if t.op == "floordiv" and isinstance(t.args[0], Term) and t.args[0].op == "var" and t.args[1] == 2:
            return Poly.var("h")
        if t.op == "rshift" and isinstance(t.args[0], Term) and t.args[0].op == "var" and t.args[1] == 1:
            return Poly.var("h")
        if t.op == "mod" and isinstance(t.args[0], Term) and t.args[0].op == "var" and t.args[1] == 2:
            return Poly.var("b")
        if t.op == "and" and isinstance(t.args[0], Term) and t.args[0].op == "var" and t.args[1] == 1:
            return Poly.var("b")
        if t.op == "mod" and order is not None and t.args[1] == order:
            return scalar_poly(t.args[0], order)       # scalars are compared modulo the group order (N·P = O)
        if t.op in ("add", "sub", "mul"):
            a, b = scalar_poly(t.args[0], order), scalar_poly(t.args[1], order)
            return a + b if t.op == "add" else a - b if t.op == "sub" else a * b
        if t.op == "int":
            return scalar_poly(t.args[0], order)
        return Poly.var(show(t))
    raise AnalysisError(f"scalar {t!r}")


def parity_of_facts(facts, n):
    """value of b = n % 2 forced by the path facts, or None"""
    m2 = Term("mod", (n, 2), "int")
    a1 = Term("and", (n, 1), "int")
    for atom, truth in facts:
        if isinstance(atom, Term) and atom.op == "eq":
            x, y = atom.args
            for u, v in ((x, y), (y, x)):
                if (u is m2 or u is a1) and isinstance(v, int):
                    if truth:
                        return v
                    if v in (0, 1):
                        return 1 - v
    return None


def check_multiply_schema(world, f, order=None, self_names=(), double_q=None, add_q=None, summaries=None, neg_ok=False,
                          adder_check=None):
    """the ladder schema; when the routine is outside it (windowed, table-driven, … : undecided), the two-point helpers it
    reaches are still held to the group law (restricted_adders) — a chord-only adder inside a scalar multiplication is a
    violation whatever the ladder looks like"""
    try:
        return _check_multiply_schema(world, f, order, self_names, double_q, add_q, summaries, neg_ok, adder_check)
    except AnalysisError as e:
        if adder_check is None:
            raise
        bad = restricted_adders(world, f, add_q, double_q, adder_check)
        if not bad:
            raise
        return [(f"{q} is point addition on generic operands only, and the scalar multiplication applies it without "
                 f"the equal / opposite / identity dispatch (points of small order meet those cases)", False,
                 f"{det}; the ladder itself is outside the schema ({str(e)[:120]})") for q, det in bad], 0


def restricted_adders(world, f, add_q, double_q, adder_check):
    """functions of the same module reached from f (by resolved names) that take two points, agree with the chord rule on
    generic operands and fail another stratum of the group law -> [(qualname, detail)]"""
    import ast as _ast
    repo = world.repo
    mod = f.module
    seen, stack, out = set(), [f], []
    while stack:
        g = stack.pop()
        if g.qualname in seen:
            continue
        seen.add(g.qualname)
        for n in _ast.walk(g.node):
            if isinstance(n, _ast.Call) and isinstance(n.func, _ast.Name):
                try:
                    r = repo.resolve_binding(g.module, n.func.id)
                except AnalysisError:
                    r = None
                if r is not None and r[0] == "func" and r[1].module is mod:
                    stack.append(r[1])
    known = set()
    for q in (add_q, double_q):
        if q:
            try:
                known.add(repo.func(q).qualname)
            except AnalysisError:
                pass
    for q in sorted(seen):
        g = repo.func(q)
        a = g.node.args
        if g is f or q in known or len(a.posonlyargs + a.args) != 2 or a.vararg or a.kwonlyargs or a.defaults:
            continue
        # both parameters must be used as points (subscripted or unpacked) — a (point, scalar) routine is not an adder
        pn = [x.arg for x in a.posonlyargs + a.args]
        used = set()
        for n_ in _ast.walk(g.node):
            if isinstance(n_, _ast.Subscript) and isinstance(n_.value, _ast.Name) and n_.value.id in pn:
                used.add(n_.value.id)
            elif isinstance(n_, _ast.Assign) and isinstance(n_.value, _ast.Name) and n_.value.id in pn and \
                    isinstance(n_.targets[0], (_ast.Tuple, _ast.List)):
                used.add(n_.value.id)
        if used != set(pn) or any(isinstance(n_, (_ast.While, _ast.For)) for n_ in _ast.walk(g.node)):
            continue
        try:
            ok, det = adder_check(g, (0, 1), {}, {})
        except AnalysisError:
            continue                      # not a function of two points
        if ok:
            continue
        # an adder at all?  the generic stratum must hold, another one fail
        parts = [d for d in det.split("; ") if d]
        if any("generic x1≠x2" in d for d in parts):
            continue
        okg = _generic_only(adder_check, g)
        if okg:
            out.append((q, det[:300]))
    return out


def _generic_only(adder_check, g):
    """does g agree with the chord rule on two generic finite points?  (asked through the same checker: all failing strata
    are listed in the detail only up to two, so the generic one is asked for separately)"""
    probe = getattr(adder_check, "generic", None)
    if probe is None:
        return False
    try:
        return probe(g)
    except AnalysisError:
        return False


def _check_multiply_schema(world, f, order=None, self_names=(), double_q=None, add_q=None, summaries=None, neg_ok=False,
                           adder_check=None):
    """f(pt, n): every path returns n·pt (order None) resp. (n mod order)·pt
    under the induction hypothesis for the recursive calls.
    Returns list of (key, ok, detail)."""
    n = var("n", "int")
    results = []
    rec_calls = []

    def s_self(it, fr, args, kwargs, node):
        if not any(fr_.func is not None and fr_.func.qualname == f.qualname for fr_ in it.stack):
            return NotImplemented
        pt, m = args
        g = classify_point(pt)
        if g is None:
            raise AnalysisError(f"{it.where(node)}: recursive call on a non-group value")
        rec_calls.append((m, dict(it.facts), it.where(node)))
        it.emit("rec_call", scalar=m, facts=dict(it.facts), node=node)
        mp = scalar_poly(m, order)      # IH: (m mod order)·pt, i.e. m·pt modulo the group order
        return g.times(mp)

    def s_double(it, fr, args, kwargs, node):
        g = classify_point(args[0])
        if g is None:
            raise AnalysisError(f"{it.where(node)}: double of a non-group value")
        return g.times(Poly.const(2))

    def s_add(it, fr, args, kwargs, node):
        a, b = classify_point(args[0]), classify_point(args[1])
        if a is None or b is None:
            raise AnalysisError(f"{it.where(node)}: add of a non-group value")
        return a.plus(b)
    adders = {}

    def s_other(it, fr, args, kwargs, node):
        """a function other than the module's add/double that the ladder applies to two points: it stands for point addition
        in the schema, and is held to the complete group law (every stratum: the ladder's accumulator can be the identity
        or ± the base point for points of small order or scalars beyond the order) by the caller's adder_check"""
        fn = fr
        pts = [i for i, a in enumerate(args) if isinstance(a, GroupSym)]
        if len(pts) != 2 or any(isinstance(v, GroupSym) for v in kwargs.values()):
            return NotImplemented
        extra = tuple((i, a) for i, a in enumerate(args) if i not in pts)
        if any(is_symv(a) for _i, a in extra) or any(is_symv(v) for v in kwargs.values()):
            return NotImplemented
        key = (fn.qualname, extra, tuple(sorted(kwargs.items())))
        if key not in adders:
            if adder_check is None:
                raise AnalysisError(f"{it.where(node)}: {fn.qualname} applied to two points inside the ladder (no group-law check available)")
            adders[key] = adder_check(fn, pts, dict(extra), dict(kwargs))
            okA, detA = adders[key]
            results.append((f"{fn.qualname}({', '.join(f'{k}={v!r}' for k, v in kwargs.items())}) used as point addition at "
                            f"{it.where(node)} is the group law on every stratum", okA, detA))
        return args[pts[0]].plus(args[pts[1]])
    def s_neg(it, fr, args, kwargs, node):
        g = classify_point(args[0])
        if g is None:
            raise AnalysisError(f"{it.where(node)}: neg of a non-group value")
        return g.times(Poly.const(-1))
    summ = dict(summaries or {})
    summ[f.qualname] = s_self
    summ[double_q] = s_double
    summ[add_q] = s_add
    if add_q and add_q.rsplit(".", 1)[-1] == "add":
        summ.setdefault(add_q.rsplit(".", 1)[0] + ".neg", s_neg)      # the module's point negation (checked by the curve-law rules)
    summ["*"] = s_other
    pt = GroupSym.base("P")

    def run(it):
        return it.call_func(f, [pt, n], {})
    ladder_notes = []
    paths = enumerate_paths(world, run, summaries=summ, loop_hooks={"*": lambda it, st, seq, fr: _ladder_for(it, st, seq, fr, n, ladder_notes, order),
                                                                    "concrete": lambda it, st, seq, fr: _ladder_table(it, st, seq, fr, n, ladder_notes, order)},
                            while_hooks={"*": lambda it, st, fr: _ladder_while(it, st, fr, n, ladder_notes)})
    for key, ok, det in ladder_notes:
        if (key, ok, det) not in results:
            results.append((key, ok, det))
    for p in paths:
        pl = " ".join(p.branch_lines()) or "(straight)"
        facts = [(a, t) for a, t, _ in p.facts]
        lo, hi, holes, _ = interval_of_facts(facts, n)
        if lo == hi and lo != INF and lo != -INF:
            nval = Poly.const(int(lo))
        else:
            nval = None
        if order is None and hi < 0:
            continue                        # n < 0 is outside the statement for the curve modules
        if p.outcome == "raise":
            # a raising path must be infeasible: parity facts b != 0 and b != 1
            b0 = any(isinstance(a, Term) and a.op == "eq" and t is False and 0 in a.args for a, t in facts
                     if isinstance(a, Term) and any(isinstance(x, Term) and x.op in ("mod", "and") for x in a.args))
            b1 = any(isinstance(a, Term) and a.op == "eq" and t is False and 1 in a.args for a, t in facts
                     if isinstance(a, Term) and any(isinstance(x, Term) and x.op in ("mod", "and") for x in a.args))
            results.append((f"path {pl}", b0 and b1, f"raises {p.value.clsname()} at {p.value.where}"
                            + (" (dead: n % 2 is neither 0 nor 1)" if b0 and b1 else " on a feasible path")))
            continue
        g = classify_point(p.value)
        if g is None:
            results.append((f"path {pl}", False, f"returns a non-group value {show(p.value)[:80]}"))
            continue
        # P may be the identity on a path that tested its marker: then everything is O
        pt_is_identity = any(isinstance(a, Term) and a.op == "coord_is_zero" and t for a, t in facts)
        coeff = g.comb.get("P", Poly.const(0))
        others = {b: c for b, c in g.comb.items() if b != "P"}
        # specification scalar
        spec = Poly.var("n")            # with an order: compared modulo the order, (n mod N)·P = n·P
        sub = {}
        bval = parity_of_facts(facts, n)
        if nval is not None:
            sub = {"n": nval, "h": Poly.const(int(lo) // 2), "b": Poly.const(int(lo) % 2)}
            if order is not None:
                sub["nmodN"] = Poly.const(int(lo) % order)
        else:
            sub["n"] = Poly.const(2) * Poly.var("h") + Poly.var("b")
            if bval is not None:
                sub["b"] = Poly.const(bval)
        d = (coeff - spec).subs(sub).subs(sub)
        if order is not None:
            d = Poly(d.t, order)
        ok = (d.is_zero() and not others) or (pt_is_identity and True)
        results.append((f"path {pl}", ok,
                        f"returns [{coeff!r}]·P" + (f" + {others}" if others else "") + f", specification [{spec!r}]·P"
                        + (f" under n = 2h + b, b = {bval}" if nval is None else f" with n = {int(lo)}")
                        + ("" if ok else f"; residue {d!r}")))
        # termination: recursive descent only with n >= 1 (n//2 < n) or after reduction into [0, order)
        for ev in p.events:
            if ev["kind"] != "rec_call":
                continue
            m = ev["scalar"]
            flo, fhi, fholes, _ = interval_of_facts(list(ev["facts"].items()), n)
            if isinstance(m, Term) and m.op == "mod" and order is not None and m.args[1] == order:
                outside = flo >= order or fhi < 0 or _disj_outside(ev["facts"], n, order)
                results.append((f"termination {ev['where']}", outside,
                                "reduction step n % N is taken only for n outside [0, N-1]" if outside else
                                "recursion on n % N is reachable for n already in [0, N-1] (no progress)"))
                continue
            mp = scalar_poly(m, order)
            halves = mp == Poly.var("h")
            nonzero = 0 in fholes or flo >= 1 or fhi <= -1
            nonneg = flo >= 0 or order is None
            ok_t = halves and nonzero and nonneg
            results.append((f"termination {ev['where']}", ok_t,
                            f"recursive scalar {show(m)}; n != 0 established: {nonzero}; n >= 0: {nonneg}"))
    return results, len(paths)


def _disj_outside(facts, n, order):
    """facts say not(0 <= n < order) through the disjunction n < 0 or n >= order:
    either lt(n,0) true, or lt(n, order) false"""
    lt0 = Term("lt", (n, 0), "bool")
    ltN = Term("lt", (n, order), "bool")
    return facts.get(lt0) is True or facts.get(ltN) is False


# ---------------------------------------------------------------------------
# iterative ladders (loop-invariant rules)
# ---------------------------------------------------------------------------
def _coef(v):
    g = classify_point(v)
    if g is None:
        return None
    others = {b: c for b, c in g.comb.items() if b != "P"}
    if others:
        return None
    return g.comb.get("P", Poly.const(0))


def _bit_facts(it, x, b):
    """assume x ∈ {0,1} has the value b, in the atom forms a bit test may take"""
    from .term import t_eq
    for val in (0, 1):
        a = t_eq(x, val)
        if isinstance(a, Term):
            atom, pol = a, True
            while atom.op == "not":
                atom, pol = atom.args[0], not pol
            it.facts[atom] = ((b == val) == pol)


def _ladder_for(it, st, seq, fr, n, notes, order=None):
    """left-to-right binary ladder:  for i in range(n.bit_length() - s, -1, -1): R = 2R [+ P if bit i of n]
    invariant at the loop head: R = (n >> (i+1))·P.  Initially i+1 = bit_length(n) - s + 1."""
    import ast as _ast
    from .interp import _assigned_names, _Break, _Continue
    where = it.where(st)
    from .builtins_model import BinDigits
    chars = isinstance(seq, BinDigits)

    def give_up(msg):
        """a loop over the binary digits of the scalar that does not fit the schema: reported, its results marked unverified"""
        notes.append((f"ladder {where}", False, msg))
        for nm in sorted(_assigned_names(st.body)):
            if nm in fr.env and _coef(fr.env[nm]) is not None:
                fr.env[nm] = GroupSym({"P": Poly.var("unverified_ladder")})
        if isinstance(st.target, _ast.Name):
            fr.env[st.target.id] = Term("after_loop", (where, st.target.id), "int")
        return None
    if chars:
        # for bit in bin(n)[k:] — the binary digits of n as characters, most significant first ('0b' + digits for n >= 0):
        # k = 2 walks every digit (like bit_length − 1 downto 0), k = 3 skips the leading 1 (like bit_length − 2 downto 0)
        if seq.order != "msb":
            raise AnalysisError(f"{where}: loop over the binary digits least significant first: outside the ladder schemas (undecided)")
        n_cands = [n] + ([Term("mod", (n, order), "int")] if order is not None else [])
        for nn in n_cands:
            if seq.n is nn:
                n = nn
        if seq.n is not n or seq.start not in (2, 3) or seq.stop is not None or not isinstance(st.target, _ast.Name):
            return give_up(f"loop over the digits of {show(seq.n)} from position {seq.start} not recognised")
        s_off = seq.start - 1
    else:
        src = getattr(seq, "src", None)
        if not (isinstance(src, tuple) and len(src) == 4 and src[0] == "range" and src[2] == -1 and src[3] == -1
                and isinstance(st.target, _ast.Name)):
            return NotImplemented
        start = src[1]
        # the scalar the loop walks: n itself, or n reduced modulo the group order (same multiple of P, known to lie in [0, N−1])
        n0 = n
        cands = [n] + ([Term("mod", (n, order), "int")] if order is not None else [])
        s_off = None
        for nn in cands:
            bl = Term("bit_length", (nn,), "int")
            for cand in (1, 2):
                if start is t_arith_sub(bl, cand):
                    s_off, n = cand, nn
        if s_off is None:
            notes.append((f"ladder {where}", False, f"loop starts at bit {show(start)}; expected bit_length(n) − 1 or − 2"))
            return NotImplemented
    carried = [nm for nm in sorted(_assigned_names(st.body)) if nm in fr.env and nm != st.target.id]
    pts = [nm for nm in carried if _coef(fr.env[nm]) is not None]
    if len(carried) != 1 or len(pts) != 1:
        notes.append((f"ladder {where}", False, f"loop-carried variables {carried}: expected exactly one accumulator point"))
        return NotImplemented
    R = pts[0]
    k0 = _coef(fr.env[R])
    flo, fhi, fholes, _ = interval_of_facts(list(it.facts.items()), n)
    if isinstance(n, Term) and n.op == "mod" and isinstance(n.args[1], int) and n.args[1] > 0:
        flo = max(flo, 0)                 # a residue
    if order is None:
        flo = max(flo, 0)                 # the curve modules' statement is about n >= 0 (negative scalars are outside it)
    while flo in fholes:
        flo += 1
    # n >> (bit_length(n) - 1) = 1 for n >= 1;  n >> bit_length(n) = 0 for n >= 0
    want0, need = (Poly.const(1), 1) if s_off == 2 else (Poly.const(0), 0)
    # (bin() of a negative n is '-0b…': the slice would start inside the prefix — n >= 0 is needed in the character form too)
    init_ok = (k0 - want0).is_zero() and flo >= need
    notes.append((f"ladder {where} invariant R = (n >> (i+1))·P holds initially", init_ok,
                  f"accumulator starts at [{k0!r}]·P, first bit index bit_length(n) − {s_off}; lower bound of n on entry: {flo}"
                  + ("" if init_ok else " — for n below that bound the leading-bit assumption fails (negative or zero scalars)")))
    i = var("i", "int")
    pres = True
    saved = dict(fr.env)
    sfacts = dict(it.facts)
    for b in (0, 1):
        fr.env.clear()
        fr.env.update(saved)
        it.facts.clear()
        it.facts.update(sfacts)
        fr.env[st.target.id] = (str(b) if seq.kind == "char" else b) if chars else i
        fr.env[R] = GroupSym({"P": Poly.var("K")})
        bit = t_arith_and(Term("rshift", (n, i), "int"), 1)
        _bit_facts(it, bit, b)
        _bit_facts(it, Term("mod", (Term("rshift", (n, i), "int"), 2), "int"), b)
        try:
            it.exec_block(st.body, fr)
        except (_Break, _Continue):
            pres = False
        k1 = _coef(fr.env.get(R))
        if k1 is None or not (k1 - (Poly.const(2) * Poly.var("K") + Poly.const(b))).is_zero():
            pres = False
    fr.env.clear()
    fr.env.update(saved)
    it.facts.clear()
    it.facts.update(sfacts)
    notes.append((f"ladder {where} invariant preserved: R' = (2K + bit_i(n))·P = (n >> i)·P", pres, ""))
    fr.env[R] = GroupSym({"P": Poly.var("n")}) if (init_ok and pres) else GroupSym({"P": Poly.var("unverified_ladder")})
    fr.env[st.target.id] = Term("after_loop", (where, st.target.id), "int")
    return None


def _ladder_while(it, st, fr, n, notes):
    """right-to-left ladder:  while m: if m & 1: R += A ; A = 2A ; m >>= 1   with invariant R + m·A = n·P"""
    import ast as _ast
    from .interp import _assigned_names, _Break, _Continue
    where = it.where(st)
    names = sorted(nm for nm in _assigned_names(st.body) if nm in fr.env)
    peel = _peel_while(it, st, fr, names, notes, where)
    if peel is not NotImplemented:
        return peel
    pts = [nm for nm in names if _coef(fr.env[nm]) is not None]
    ints = [nm for nm in names if nm not in pts]
    if len(pts) != 2 or len(ints) != 1:
        return NotImplemented
    m_name = ints[0]
    m0 = fr.env[m_name]
    cond = _ast.unparse(st.test).replace(" ", "")
    if cond not in (m_name, f"{m_name}>0", f"{m_name}!=0", f"0<{m_name}"):
        notes.append((f"ladder {where}", False, f"loop condition `{cond}` not recognised"))
        return NotImplemented
    flo, fhi, fholes, _ = interval_of_facts(list(it.facts.items()), n)
    while flo in fholes:
        flo += 1
    ks = {nm: _coef(fr.env[nm]) for nm in pts}
    # which of the two points is the accumulator?  try both role assignments
    saved = dict(fr.env)
    sfacts = dict(it.facts)
    verdict = None
    for R, A in ((pts[0], pts[1]), (pts[1], pts[0])):
        init = (ks[R] + scalar_poly(m0) * ks[A] - Poly.var("n")).is_zero()
        pres = True
        for b in (0, 1):
            fr.env.clear()
            fr.env.update(saved)
            it.facts.clear()
            it.facts.update(sfacts)
            cur = var("cur", "int")
            fr.env[m_name] = cur
            gR, gA = GroupSym({"P": Poly.var("KR")}), GroupSym({"P": Poly.var("KA")})
            fr.env[R] = gR
            fr.env[A] = gA
            _bit_facts(it, t_arith_and(cur, 1), b)
            _bit_facts(it, Term("mod", (cur, 2), "int"), b)
            try:
                it.exec_block(st.body, fr)
            except (_Break, _Continue):
                pres = False
                continue
            kr, ka, m1 = _coef(fr.env.get(R)), _coef(fr.env.get(A)), fr.env.get(m_name)
            # a path that tested "accumulator / addend is the identity" and found it true: that multiple of P is O
            zsub = {}
            for g_, kn in ((gR, "KR"), (gA, "KA")):
                if any(isinstance(a_, Term) and a_.op == "coord_is_zero" and a_.args[0] == id(g_) and t_ is True
                       for a_, t_ in it.facts.items()):
                    zsub[kn] = Poly.const(0)
            halves = isinstance(m1, Term) and ((m1.op == "rshift" and m1.args == (cur, 1)) or (m1.op == "floordiv" and m1.args == (cur, 2)))
            if kr is None or ka is None or not halves:
                pres = False
                continue
            h = Poly.var("hh")
            before = Poly.var("KR") + (Poly.const(2) * h + Poly.const(b)) * Poly.var("KA")
            after = kr + h * ka
            if not (before - after).subs(zsub).is_zero():
                pres = False
        if init and pres:
            verdict = (R, A)
            break
    fr.env.clear()
    fr.env.update(saved)
    it.facts.clear()
    it.facts.update(sfacts)
    term_ok = flo >= 0
    notes.append((f"ladder {where} invariant R + m·A = n·P holds initially and is preserved for both bit values", verdict is not None, ""))
    notes.append((f"ladder {where} terminates: m halves each round and n ≥ 0 on entry", term_ok,
                  f"lower bound of n on entry: {flo}" + ("" if term_ok else " (a negative scalar never reaches 0 under >> 1)")))
    R = verdict[0] if verdict else pts[0]
    fr.env[R] = GroupSym({"P": Poly.var("n")}) if (verdict and term_ok) else GroupSym({"P": Poly.var("unverified_ladder")})
    fr.env[m_name] = 0
    return None


def _peel_while(it, st, fr, names, notes, where):
    """while m != 1 (m > 1):  L.append(m % 2) ; m //= 2   — peels the binary digits of m below its leading one into the list L,
    least significant first (needs m >= 1 on entry).  Afterwards L stands for those digits and m is 1."""
    import ast as _ast
    from .interp import _Break, _Continue
    from .builtins_model import BinDigits
    lists = [nm for nm in fr.env if isinstance(fr.env[nm], list) and not fr.env[nm]
             and any(isinstance(x, _ast.Call) and isinstance(x.func, _ast.Attribute) and x.func.attr == "append"
                     and isinstance(x.func.value, _ast.Name) and x.func.value.id == nm for s_ in st.body for x in _ast.walk(s_))]
    ints = [nm for nm in names if isinstance(fr.env[nm], (Term, int)) and not isinstance(fr.env[nm], bool)]
    if len(lists) != 1:
        return NotImplemented
    L = lists[0]
    test = _ast.unparse(st.test).replace(" ", "")
    m_name = next((nm for nm in ints if test in (f"{nm}!=1", f"{nm}>1", f"1<{nm}", f"1!={nm}", f"{nm}>=2")), None)
    if m_name is None:
        return NotImplemented
    m0 = fr.env[m_name]
    saved = dict(fr.env)
    sfacts = dict(it.facts)
    ok = True
    for b in (0, 1):
        fr.env.clear()
        fr.env.update(saved)
        it.facts.clear()
        it.facts.update(sfacts)
        cur = var("cur", "int")
        fr.env[m_name] = cur
        fr.env[L] = []
        _bit_facts(it, t_arith_and(cur, 1), b)
        _bit_facts(it, Term("mod", (cur, 2), "int"), b)
        try:
            it.exec_block(st.body, fr)
        except (_Break, _Continue):
            ok = False
            continue
        got, m1 = fr.env.get(L), fr.env.get(m_name)
        halves = isinstance(m1, Term) and ((m1.op == "rshift" and m1.args == (cur, 1)) or (m1.op == "floordiv" and m1.args == (cur, 2)))
        digit = isinstance(got, list) and len(got) == 1 and (
            got[0] == b or (isinstance(got[0], Term) and got[0] in (t_arith_and(cur, 1), Term("mod", (cur, 2), "int"))))
        if not (halves and digit):
            ok = False
    fr.env.clear()
    fr.env.update(saved)
    it.facts.clear()
    it.facts.update(sfacts)
    lo, _hi, holes, _ = interval_of_facts(list(it.facts.items()), m0) if isinstance(m0, Term) else (m0, m0, [], [])
    if isinstance(m0, Term) and m0.op == "mod" and isinstance(m0.args[1], int) and m0.args[1] > 0:
        lo = max(lo, 0)
    while lo in holes:
        lo += 1
    pos = lo >= 1
    notes.append((f"digit-peeling loop {where}: each round appends m % 2 and halves m", ok, ""))
    notes.append((f"digit-peeling loop {where} terminates with m = 1: m ≥ 1 on entry", pos,
                  f"lower bound of the scalar on entry: {lo}" + ("" if pos else " (0 or a negative scalar never reaches 1)")))
    if not (ok and pos) or not isinstance(m0, Term):
        fr.env[L] = Term("unverified_digits", (where,), "seq")
    else:
        fr.env[L] = BinDigits(m0, 3, None, "int", "lsb")
    fr.env[m_name] = 1
    return None


def t_arith_sub(a, k):
    from .term import t_arith
    return t_arith("sub", a, k)


def t_arith_and(a, k):
    from .term import t_arith
    return t_arith("and", a, k)
