"""Models of the builtins / stdlib functions the package calls (closed list).
Anything not listed here is an analysis error inside an analysed region."""
from __future__ import annotations

import ast
import math

from .term import (AnalysisError, AbstractValue, Term, is_sym, t_concat, t_len, t_arith, t_not,
                   t_eq, t_cmp, sort_of, show, t_digest_size)
from .loader import External, ClassInfo, FuncRef
from .fieldmodel import FieldVal


def _I():
    from . import interp
    return interp


def call_builtin(it, ext: External, args, kwargs, node):
    I = _I()
    q = ext.qual
    name = q[len("builtins."):] if q.startswith("builtins.") else q
    # exception classes
    if name in I._BUILTIN_EXC or q in I.EXTERNAL_EXC_BASES:
        return I.ExcValue(ext, args, None)
    h = _TABLE.get(name)
    if h is None:
        raise AnalysisError(f"{it.where(node)}: call of unmodelled external {q}")
    return h(it, args, kwargs, node)


def _len(it, a, kw, node):
    if isinstance(a[0], dict):
        return Term("dict_len", (it.shared_name(a[0]),), "int")
    return t_len(a[0]) if not isinstance(a[0], I_SymSeq()) else a[0].length


def I_SymSeq():
    return _I().SymSeq


def _isinstance(it, a, kw, node):
    I = _I()
    v, T = a
    if isinstance(T, tuple):
        res = False
        for t in T:
            r = _isinstance(it, [v, t], kw, node)
            if it.truth(r, node):
                return True
        return res
    if isinstance(T, External):
        tn = T.qual.replace("builtins.", "")
        if isinstance(v, I.HashObj):
            # the concrete type of a hashlib object depends on the algorithm (_hashlib.HASH for the OpenSSL-backed ones,
            # _blake2.blake2b / blake2s, _sha3 … otherwise): unknown for a symbolic hash function
            if tn in ("int", "bytes", "bool", "str", "bytearray", "list", "tuple", "float"):
                return False
            if is_sym(v.fn) or isinstance(v.fn, Term):
                return Term("isinstance", (I._hashable(v.fn), tn), "bool")
            if tn in ("_hashlib.HASH", "hashlib._Hash"):
                if repr(v.fn) in ("sha256", "sha384", "sha512", "sha224", "sha1", "md5"):
                    return True
                if repr(v.fn) in ("blake2b", "blake2s"):
                    return False            # hashlib always binds these to _blake2.blake2b / blake2s
                return Term("isinstance", (repr(v.fn), tn), "bool")      # sha3_*: OpenSSL-backed or _sha3, build dependent
            raise AnalysisError(f"{it.where(node)}: isinstance of a hash object against {T.qual}")
        if tn not in ("int", "bytes", "bool", "str", "bytearray", "list", "tuple", "float", "memoryview"):
            raise AnalysisError(f"{it.where(node)}: isinstance against {T.qual}")
        if isinstance(v, Term) or hasattr(v, "v_isinstance"):
            if hasattr(v, "v_isinstance"):
                r = v.v_isinstance(tn, it)
                if r is not NotImplemented:
                    return r
            s = v.sort
            if s == "any":
                return Term("isinstance", (v, tn), "bool")
            if s == "optional":
                raise AnalysisError(f"{it.where(node)}: isinstance on optional")
            m = {"int": ("int", "bool"), "bytes": ("bytes",), "bool": ("bool",)}
            return s in m.get(tn, ())
        if isinstance(v, (I.Instance, FieldVal, I.SymSeq, ClassInfo, I.Fold)) or is_sym(v):
            return False
        pytypes = {"int": int, "bytes": bytes, "bool": bool, "str": str, "bytearray": bytearray,
                   "list": list, "tuple": tuple, "float": float, "memoryview": memoryview}
        return isinstance(v, pytypes[tn])
    if isinstance(T, ClassInfo):
        if isinstance(v, I.Instance):
            return T in v.cls.mro(it.repo)
        if isinstance(v, FieldVal):
            if v.cls is None:       # coefficient of a reference FQP
                return T.qualname == "py_ecc.fields.field_elements.FQ"
            return T in v.cls.mro(it.repo)
        if hasattr(v, "v_isinstance"):
            r = v.v_isinstance(T, it)
            if r is not NotImplemented:
                return r
        if isinstance(v, Term) and v.sort in ("field", "point", "any"):
            if v.sort == "any":
                return Term("isinstance", (v, T.qualname), "bool")
            raise AnalysisError(f"{it.where(node)}: isinstance of symbolic field value")
        return False
    if isinstance(T, Term) and T.op == "type":
        # isinstance(other, type(self)) with symbolic self
        return Term("isinstance", (v, T), "bool")
    raise AnalysisError(f"{it.where(node)}: isinstance against {T!r}")


def _type(it, a, kw, node):
    I = _I()
    if len(a) == 3:
        name, bases, d = a
        c = ClassInfo(it.stack[-1].module if it.stack else None, name, None, list(bases), dict(d))
        return c
    v = a[0]
    if isinstance(v, I.Instance):
        return v.cls
    if isinstance(v, FieldVal):
        if v.cls is None:
            raise AnalysisError("type() of reference coefficient")
        return v.cls
    if isinstance(v, Term):
        return Term("type", (v,), "any")
    if hasattr(v, "v_type"):
        return v.v_type(it)
    return External("builtins." + type(v).__name__)


def _hasattr(it, a, kw, node):
    I = _I()
    v, name = a
    if isinstance(v, I.Instance):
        if name in v.attrs:
            return True
        return it.has_class_attr(v.cls, name)
    if isinstance(v, ClassInfo):
        return it.has_class_attr(v, name)
    raise AnalysisError(f"{it.where(node)}: hasattr on {v!r}")


def _ordered_dict(it, a, kw, node):
    if a or kw:
        raise AnalysisError(f"{it.where(node)}: OrderedDict with initial contents")
    return {}


def _lock(it, a, kw, node):
    return _I().LockObj()


def _lru_cache(it, a, kw, node):
    I = _I()
    if len(a) == 1 and not kw and isinstance(a[0], (I.FuncRef, I.Closure, I.BoundMethod)):
        return a[0]                   # @lru_cache without parentheses / lru_cache(f)
    return I.IdentityDecorator()      # lru_cache(maxsize=…, typed=…)


class BinDigits(AbstractValue):
    """bin(n)[start:stop] for a symbolic int n: the binary digits as characters, most significant first"""
    sort = "str"

    def __init__(self, n, start=0, stop=None, kind="char", order="msb"):
        # kind "char": characters of bin(n); kind "int": the integer digits (a list built by peeling n); order: which end first
        self.n, self.start, self.stop, self.kind, self.order = n, start, stop, kind, order

    def v_index(self, idx, it):
        if isinstance(idx, slice) and idx.step in (None, 1) and self.start == 0 and self.stop is None \
                and (idx.start is None or (isinstance(idx.start, int) and idx.start >= 0)) and idx.stop is None:
            return BinDigits(self.n, idx.start or 0, None)
        raise AnalysisError(f"index {idx!r} into bin() of a symbolic integer")

    def __repr__(self):
        return f"bin({self.n!r})[{self.start}:]"

    def __deepcopy__(self, memo):
        return self


_STRUCT_FMT = {"B": (1, 0, 255), "b": (1, -128, 127), "H": (2, 0, 65535), "h": (2, -32768, 32767),
               "I": (4, 0, 2 ** 32 - 1), "L": (4, 0, 2 ** 32 - 1), "Q": (8, 0, 2 ** 64 - 1)}


class StructObj:
    """struct.Struct(fmt) for a single big-endian integer field"""

    def __init__(self, fmt):
        self.fmt = fmt

    def __deepcopy__(self, memo):
        return self


def _struct_pack_value(it, fmt, x, node):
    import ast as _ast
    if not (isinstance(fmt, str) and len(fmt) == 2 and fmt[0] in ">!" and fmt[1] in _STRUCT_FMT):
        raise AnalysisError(f"{it.where(node)}: struct format {fmt!r} outside the fragment")
    size, lo, hi = _STRUCT_FMT[fmt[1]]
    if not is_sym(x):
        if isinstance(x, bool) or not isinstance(x, int) or not lo <= x <= hi:
            it.raise_exc("struct.error", "argument out of range", node)
        return (x % 256 ** size).to_bytes(size, "big")
    # out of range raises struct.error: decided from the path's facts, else both outcomes
    if not it.truth(it.compare(_ast.GtE(), x, lo, node), node):
        it.raise_exc("struct.error", "argument out of range", node)
    if not it.truth(it.compare(_ast.LtE(), x, hi, node), node):
        it.raise_exc("struct.error", "argument out of range", node)
    return Term("i2osp", (x, size), "bytes")      # non-negative by the range test (signed formats: only their non-negative half)


def _struct_Struct(it, a, kw, node):
    return StructObj(a[0])


def _struct_pack(it, a, kw, node):
    if len(a) != 2:
        raise AnalysisError(f"{it.where(node)}: struct.pack with {len(a) - 1} values")
    return _struct_pack_value(it, a[0], a[1], node)


def _islice(it, a, kw, node):
    I = _I()
    src = a[0]
    if is_sym(src) or any(is_sym(x) for x in a[1:]):
        raise AnalysisError(f"{it.where(node)}: itertools.islice with symbolic arguments")
    items = list(it.iter_concrete(src, node))
    if len(a) == 2:
        lo, hi = 0, a[1]
    else:
        lo, hi = a[1] or 0, a[2]
    if len(a) > 3 and a[3] not in (None, 1):
        raise AnalysisError(f"{it.where(node)}: itertools.islice with a step")
    out = I.GenItems(items[lo:hi] if hi is not None else items[lo:])
    if getattr(src, "exc", None) is not None and (hi is None or hi > len(items)):
        out.exc = src.exc             # the consumer runs past what the generator produced before raising
    return out


def _staticmethod(it, a, kw, node):
    return _I().DescriptorWrap("staticmethod", a[0])


def _classmethod(it, a, kw, node):
    return _I().DescriptorWrap("classmethod", a[0])


def _hash(it, a, kw, node):
    # an opaque, non-injective integer (for str/bytes it also differs between processes)
    return Term("hash", (_I()._hashable(a[0]),), "int")


def _operator_index(it, a, kw, node):
    """operator.index(x): x.__index__() — the int itself for ints and bools, TypeError for anything else"""
    x = a[0]
    if isinstance(x, bool):
        return int(x)
    if isinstance(x, int):
        return x
    if isinstance(x, Term) and x.sort in ("int", "bool"):
        return x
    if hasattr(x, "v_isinstance") and x.v_isinstance("int", it) is True:
        return x
    if isinstance(x, (float, str, bytes, bytearray, type(None), list, tuple)):
        it.raise_exc("TypeError", "object cannot be interpreted as an integer", node)
    raise AnalysisError(f"{it.where(node)}: operator.index of {x!r}")


def _bin(it, a, kw, node):
    if is_sym(a[0]):
        return BinDigits(a[0])
    return bin(a[0])


def _eth_is_number(it, a, kw, node):
    # eth_utils.is_number: isinstance(x, numbers.Number) — ints, but also floats, Fractions, Decimals, complex
    v = a[0]
    if isinstance(v, Term) and v.sort == "any":
        return Term("is_number", (v,), "bool")
    if isinstance(v, Term):
        return v.sort in ("int", "bool", "float")
    if is_sym(v):
        return False
    import numbers
    return isinstance(v, numbers.Number)


def _eth_is_integer(it, a, kw, node):
    # eth_utils.is_integer: an int that is not a bool
    r = _isinstance(it, [a[0], External("builtins.int")], {}, node)
    if not it.truth(r, node):
        return False
    rb = _isinstance(it, [a[0], External("builtins.bool")], {}, node)
    return it.logical_not(rb, node)


def _eth_is_bytes(it, a, kw, node):
    r = _isinstance(it, [a[0], External("builtins.bytes")], {}, node)
    if it.truth(r, node):
        return True
    return _isinstance(it, [a[0], External("builtins.bytearray")], {}, node)


def _eth_big_endian_to_int(it, a, kw, node):
    # eth_utils.big_endian_to_int(b) = int.from_bytes(b, "big")
    return _from_bytes(it, [a[0], "big"], {}, node)


def _eth_int_to_big_endian(it, a, kw, node):
    # eth_utils.int_to_big_endian(n): the *minimal* big-endian encoding (leading zero bytes dropped; 0 -> b"\x00")
    v = a[0]
    if is_sym(v):
        return Term("int_to_big_endian_minimal", (v,), "bytes")
    return v.to_bytes((v.bit_length() + 7) // 8 or 1, "big")


def _iter(it, a, kw, node):
    I = _I()
    x = a[0]
    if isinstance(x, dict) and id(x) in it.world.__dict__.get("shared_objs", {}):
        return Term("dict_iter", (it.shared_name(x),), "any")
    if isinstance(x, (list, tuple, I._ConcreteIter, range, bytes, dict)):
        return I._ConcreteIter(list(x))
    raise AnalysisError(f"{it.where(node)}: iter() of {x!r}")


def _next(it, a, kw, node):
    I = _I()
    x = a[0]
    if isinstance(x, Term) and x.op == "dict_iter":
        return Term("dict_first", x.args, "any")
    if isinstance(x, I._ConcreteIter):
        if not x:
            if len(a) > 1:
                return a[1]
            it.raise_exc("StopIteration", "", node)
        return x.pop(0)
    raise AnalysisError(f"{it.where(node)}: next() of {x!r}")


def _getattr(it, a, kw, node):
    if len(a) not in (2, 3) or not isinstance(a[1], str):
        raise AnalysisError(f"{it.where(node)}: getattr with a non-constant attribute name")
    if len(a) == 3:
        try:
            if not it.truth(_hasattr(it, a[:2], {}, node), node):
                return a[2]
        except AnalysisError:
            pass
    return it.getattr(a[0], a[1], node)


def _int(it, a, kw, node):
    I = _I()
    if not a:
        return 0
    v = a[0]
    if isinstance(v, I.Instance):
        m = it.find_method(v.cls, "__int__")
        if m is None:
            raise AnalysisError(f"{it.where(node)}: int() of {v.cls.qualname}")
        return it.call_func(m, [v], {}, node)
    if isinstance(v, FieldVal):
        return int(v)
    if hasattr(v, "v_int"):
        return v.v_int(it)
    if isinstance(v, Term):
        if v.sort in ("int",):
            return v
        if v.sort == "bool":
            return Term("b2i", (v,), "int")
        if v.sort == "float":
            return Term("trunc", (v,), "int")
        if v.sort == "any" and it.facts.get(Term("isinstance", (v, "int"), "bool")) is True:
            return v                  # the path has established that it is an int: int(v) has v's value
        if v.sort in ("field", "any"):
            return Term("int", (v,), "int")
        raise AnalysisError(f"{it.where(node)}: int() of {v!r}")
    if isinstance(v, (int, float, bool)):
        return int(v)
    raise AnalysisError(f"{it.where(node)}: int() of {v!r}")


def _bool(it, a, kw, node):
    v = a[0]
    if is_sym(v):
        return it.as_cond(v, node)
    return bool(v)


def _range(it, a, kw, node):
    if any(is_sym(x) for x in a):
        I = _I()
        # range(lo, hi) with symbolic bounds -> symbolic sequence of ints
        if len(a) == 1:
            lo, hi = 0, a[0]
        elif len(a) == 2:
            lo, hi = a
        else:
            lo, hi, step = a
            if is_sym(step):
                raise AnalysisError(f"{it.where(node)}: range with symbolic step")
            idx = Term("range_elem", (lo, hi, step), "int")
            return I.SymSeq(f"range({show(lo)},{show(hi)},{step})", idx, Term("range_len", (lo, hi, step), "int"),
                            src=("range", lo, hi, step))
        idx = Term("range_elem", (lo, hi), "int")
        return I.SymSeq(f"range({show(lo)},{show(hi)})", idx, Term("range_len", (lo, hi), "int"), src=("range", lo, hi, 1))
    return range(*a)


def _zip(it, a, kw, node):
    I = _I()
    if any(is_sym(x) for x in a):
        elems = []
        lens = []
        for x in a:
            if isinstance(x, I.SymSeq):
                elems.append(x.elem)
                lens.append(x.length)
            elif isinstance(x, Term) and x.sort in ("bytes", "seq"):
                elems.append(it.generic_elem(x, node))
                lens.append(t_len(x))
            else:
                raise AnalysisError(f"{it.where(node)}: zip of concrete and symbolic sequences")
        ln = lens[0]
        from .term import t_min
        for l in lens[1:]:
            ln = t_min(ln, l)
        it.emit("zip", seqs=list(a), lens=lens, facts=dict(it.facts), node=node)
        return I.SymSeq("zip(" + ",".join(getattr(x, "name", show(x)) for x in a) + ")", tuple(elems), ln, tuple(a))
    return list(zip(*[it.iter_concrete(x, node) for x in a]))


def _enumerate(it, a, kw, node):
    if is_sym(a[0]):
        raise AnalysisError(f"{it.where(node)}: enumerate over symbolic sequence")
    return list(enumerate(it.iter_concrete(a[0], node)))


def _reversed(it, a, kw, node):
    I = _I()
    if isinstance(a[0], I.SymSeq) and isinstance(a[0].src, tuple) and len(a[0].src) == 4 and a[0].src[0] == "range" and a[0].src[3] == 1:
        # reversed(range(lo, hi)) = range(hi − 1, lo − 1, −1)
        _r, lo, hi, _st = a[0].src

        def minus1(x):
            if isinstance(x, Term) and x.op == "sub" and isinstance(x.args[1], int):
                return t_arith("sub", x.args[0], x.args[1] + 1)
            return t_arith("sub", x, 1) if is_sym(x) else x - 1
        return _range(it, [minus1(hi), minus1(lo), -1], {}, node)
    if isinstance(a[0], BinDigits) and a[0].kind == "int":
        d = a[0]
        return BinDigits(d.n, d.start, d.stop, "int", "msb" if d.order == "lsb" else "lsb")
    return list(reversed(it.iter_concrete(a[0], node)))


def _list(it, a, kw, node):
    if not a:
        return []
    if is_sym(a[0]):
        return a[0]
    return list(it.iter_concrete(a[0], node))


def _tuple(it, a, kw, node):
    if not a:
        return ()
    if is_sym(a[0]):
        return a[0]
    return tuple(it.iter_concrete(a[0], node))


def _sum(it, a, kw, node):
    items = it.iter_concrete(a[0], node)
    acc = a[1] if len(a) > 1 else 0
    for x in items:
        acc = it.binop("add", acc, x, node)
    return acc


def _all(it, a, kw, node):
    I = _I()
    if isinstance(a[0], I.SymSeq):
        # all(pred(e) for e in S): decided on the generic element — true: every element satisfies it (a ∀-fact, as for the
        # loop `for e in S: if not pred(e): …`); false: some element does not
        return bool(it.truth(a[0].elem, node))
    for x in it.iter_concrete(a[0], node):
        if not it.truth(x, node):
            return False
    return True


def _any(it, a, kw, node):
    I = _I()
    if isinstance(a[0], I.SymSeq):
        return bool(it.truth(a[0].elem, node))
    for x in it.iter_concrete(a[0], node):
        if it.truth(x, node):
            return True
    return False


def _minmax(name, it, a, kw, node):
    I = _I()
    items = list(a)
    if len(items) == 1 and isinstance(items[0], (list, tuple, I._ConcreteIter)):
        items = list(items[0])
    if any(is_sym(x) for x in items):
        if all(isinstance(x, (int, Term)) for x in items):
            return Term(name, tuple(items), "int")
        # extremum of values without a modelled order (symbolic field elements …): an opaque integer
        return Term(name, tuple(repr(x) if not isinstance(x, (int, Term)) else x for x in items), "int")
    return (max if name == "max" else min)(items)


def _max(it, a, kw, node):
    return _minmax("max", it, a, kw, node)


def _min(it, a, kw, node):
    return _minmax("min", it, a, kw, node)


def _pow(it, a, kw, node):
    if any(is_sym(x) for x in a):
        if any(hasattr(x, "v_pow3") for x in a):
            for x in a:
                if hasattr(x, "v_pow3"):
                    return x.v_pow3(a, it)
        if len(a) == 3:
            return Term("powmod", tuple(a), "int")
        return it.binop("pow", a[0], a[1], node)
    if len(a) == 2:
        return it.binop("pow", a[0], a[1], node)
    return pow(*a)


def _bytes(it, a, kw, node):
    I = _I()
    if not a:
        return b""
    v = a[0]
    if isinstance(v, (bytes, bytearray)):
        return bytes(v)
    if isinstance(v, Term) and v.sort == "bytes":
        return v
    if isinstance(v, Term) and v.op == "map":
        # bytes(f(elem) for elem in bytes-zip): kept as an opaque byte string
        return Term("bytes_of", (v,), "bytes")
    if isinstance(v, I.SymSeq):
        return Term("bytes_of", (I._hashable(v),), "bytes")
    if isinstance(v, (list, tuple, I._ConcreteIter)):
        if all(isinstance(x, int) for x in v):
            if not all(0 <= x < 256 for x in v):
                it.raise_exc("ValueError", "bytes must be in range(0, 256)", node)
            return bytes(v)
        if len(v) == 1:
            # bytes([i]) with symbolic i == I2OSP(i, 1) when 0 <= i < 256
            it.emit("implicit_raise", exc="ValueError", cond=("byte_range", v[0]), node=node)
            return Term("i2osp", (v[0], 1), "bytes")
        # a byte string assembled from symbolic digits: opaque, of known length
        for x in v:
            if is_sym(x):
                it.emit("implicit_raise", exc="ValueError", cond=("byte_range", x), node=node)
        return Term("bytes_of_list", tuple(I._hashable(x) for x in v), "bytes")
    if isinstance(v, int):
        return bytes(v)
    raise AnalysisError(f"{it.where(node)}: bytes() of {v!r}")


class SymByteArray(AbstractValue):
    """a mutable byte array whose content may be symbolic"""
    sort = "bytes"

    def __init__(self, value):
        self.value = value

    def sym_len(self):
        return t_len(self.value)

    def v_binop(self, op, other, reflected, it):
        o = other.value if isinstance(other, SymByteArray) else other
        if op == "add":
            return t_concat([o, self.value] if reflected else [self.value, o])
        raise AnalysisError(f"{op} on bytearray")

    def v_index(self, idx, it):
        return it.index(self.value, idx)

    def v_getattr(self, name, it):
        if name == "extend":
            def ext(v):
                self.value = t_concat([self.value, v.value if isinstance(v, SymByteArray) else v])
            return ext
        raise AnalysisError(f"bytearray.{name}")

    def __repr__(self):
        return f"bytearray({show(self.value)})"


def _bytearray(it, a, kw, node):
    if not a:
        return SymByteArray(b"")
    v = a[0]
    if isinstance(v, int):
        return SymByteArray(bytes(v))
    if isinstance(v, (bytes, bytearray)):
        return SymByteArray(bytes(v))
    if isinstance(v, SymByteArray):
        return SymByteArray(v.value)
    if isinstance(v, Term) and v.sort == "bytes":
        return SymByteArray(v)
    raise AnalysisError(f"{it.where(node)}: bytearray() of {v!r}")


def _set(it, a, kw, node):
    I = _I()
    if not a:
        return set()
    v = a[0]
    if isinstance(v, I.SymSeq):
        return I.SymSeq(f"set({v.name})", v.elem, Term("len_set", (I._hashable(v),), "int"), (v,))
    if is_sym(v):
        raise AnalysisError(f"{it.where(node)}: set() of {v!r}")
    return set(it.iter_concrete(v, node))


def _ord(it, a, kw, node):
    v = a[0]
    if is_sym(v):
        return Term("ord", (v,), "int")
    return ord(v)


def _repr(it, a, kw, node):
    return "<repr>"


def _cast(it, a, kw, node):
    return a[1]


def _abs(it, a, kw, node):
    if is_sym(a[0]):
        return Term("abs", (a[0],), "int")
    return abs(a[0])


def _ceil(it, a, kw, node):
    v = a[0]
    if isinstance(v, Term):
        # ceil(x / y) for integer terms: the one shape the package uses
        if v.op == "truediv":
            if isinstance(v.args[0], int) and v.args[0] == 0:
                return 0            # ceil(0 / b) for a positive size b
            t = Term("ceildiv", v.args, "int")
            if t in it.int_bindings:          # case split chosen by the rule
                it.emit("case_split", term=t, value=it.int_bindings[t], node=node)
                return it.int_bindings[t]
            return t
        raise AnalysisError(f"{it.where(node)}: ceil of {v!r}")
    return math.ceil(v)


def _log2(it, a, kw, node):
    if is_sym(a[0]):
        raise AnalysisError(f"{it.where(node)}: log2 of symbolic value")
    return math.log2(a[0])


def _hmac_new(it, a, kw, node):
    I = _I()
    a = list(a)
    key = a[0]
    msg = a[1] if len(a) > 1 else kw.get("msg", b"")
    fn = a[2] if len(a) > 2 else kw.get("digestmod")
    if fn is None:
        raise AnalysisError(f"{it.where(node)}: hmac.new without digestmod")
    if msg is None:
        msg = b""
    return I.HashObj(fn, msg, key=key)


def _from_bytes(it, a, kw, node):
    v = a[0]
    order = a[1] if len(a) > 1 else kw.get("byteorder", "big")
    signed = kw.get("signed", False)
    if order != "big" or signed:
        it.emit("os2ip_variant", order=order, signed=signed, node=node)
        if is_sym(v):
            return Term("from_bytes", (v, order, signed), "int")
    if is_sym(v):
        return Term("os2ip", (v,), "int")
    return int.from_bytes(bytes(v), order, signed=signed)


def _newtype(it, a, kw, node):
    return _I().IdentityFn(a[0])


def _typevar(it, a, kw, node):
    return External("typing.TypeVar")


def _float(it, a, kw, node):
    if is_sym(a[0]):
        return Term("float", (a[0],), "float")
    return float(a[0])


def _divmod(it, a, kw, node):
    return (it.binop("floordiv", a[0], a[1], node), it.binop("mod", a[0], a[1], node))


def _version(it, a, kw, node):
    return "<version>"


def _sorted(it, a, kw, node):
    items = it.iter_concrete(a[0], node)
    if any(is_sym(x) for x in items) or kw:
        raise AnalysisError(f"{it.where(node)}: sorted() of symbolic values / with a key")
    return sorted(items)


def _map(it, a, kw, node):
    I = _I()
    fn, seqs = a[0], a[1:]
    if len(seqs) == 1 and isinstance(seqs[0], I.SymSeq):
        base = seqs[0]
        v = it.call(fn, [base.elem], {}, node)
        return I.SymSeq(f"map@{it.where(node)}", v, base.length, ("map", base))
    if any(is_sym(x) for x in seqs):
        raise AnalysisError(f"{it.where(node)}: map over symbolic sequences")
    cols = [it.iter_concrete(x, node) for x in seqs]
    return I._ConcreteIter([it.call(fn, list(xs), {}, node) for xs in zip(*cols)])


def _reduce(it, a, kw, node):
    I = _I()
    if len(a) == 3:
        fn, seq, init = a
    elif len(a) == 2:
        fn, seq = a
        init = _NOINIT
    else:
        raise AnalysisError(f"{it.where(node)}: functools.reduce with {len(a)} arguments")
    if isinstance(seq, I.SymSeq) or (isinstance(seq, Term) and seq.sort in ("bytes", "seq")):
        if init is _NOINIT:
            raise AnalysisError(f"{it.where(node)}: reduce over a symbolic sequence without an initial value")
        from .term import sort_of
        it.loop_counter += 1
        lid = f"L{it.loop_counter}@{it.where(node)}"
        elem = it.generic_elem(seq, node)
        base = seq
        if isinstance(seq, I.SymSeq) and isinstance(seq.src, tuple) and len(seq.src) == 2 and seq.src[0] == "map":
            base = seq.src[1]            # an element-wise image: the fold ranges over the underlying sequence
        acc = Term("acc", (lid, "acc"), sort_of(init))
        it.emit("loop_enter", loop=lid, seq=base, node=node)
        it.sym_loop_depth += 1
        try:
            new = it.call(fn, [acc, elem], {}, node)
        finally:
            it.sym_loop_depth -= 1
        if new is acc:
            return init
        f = I.Fold(lid, "acc", init, new, acc, base)
        it.emit("loop_exit", loop=lid, seq=base, folds={"acc": f}, node=node)
        return f
    items = it.iter_concrete(seq, node)
    if init is _NOINIT:
        if not items:
            it.raise_exc("TypeError", "reduce() of empty iterable with no initial value", node)
        acc, items = items[0], items[1:]
    else:
        acc = init
    for x in items:
        acc = it.call(fn, [acc, x], {}, node)
    return acc


_NOINIT = object()

_TABLE = {
    "len": _len, "isinstance": _isinstance, "type": _type, "hasattr": _hasattr, "int": _int, "getattr": _getattr, "iter": _iter, "next": _next, "bin": _bin, "operator.index": _operator_index, "hash": _hash, "staticmethod": _staticmethod, "classmethod": _classmethod, "itertools.islice": _islice, "struct.Struct": _struct_Struct, "struct.pack": _struct_pack,
    "bool": _bool, "range": _range, "zip": _zip, "enumerate": _enumerate, "reversed": _reversed,
    "list": _list, "tuple": _tuple, "sum": _sum, "all": _all, "any": _any, "max": _max, "min": _min,
    "pow": _pow, "bytes": _bytes, "bytearray": _bytearray, "set": _set, "ord": _ord, "repr": _repr,
    "abs": _abs, "float": _float, "divmod": _divmod,
    "typing.cast": _cast, "typing.NewType": _newtype, "typing.TypeVar": _typevar,
    "math.ceil": _ceil, "math.log2": _log2, "hmac.new": _hmac_new,
    "int.from_bytes": _from_bytes, "map": _map, "functools.reduce": _reduce, "sorted": _sorted,
    "importlib.metadata.version": _version,
    "collections.OrderedDict": _ordered_dict, "threading.Lock": _lock, "threading.RLock": _lock,
    "functools.lru_cache": _lru_cache, "functools.cache": _lru_cache,
    "eth_utils.big_endian_to_int": _eth_big_endian_to_int, "eth_utils.int_to_big_endian": _eth_int_to_big_endian,
    "eth_utils.is_number": _eth_is_number, "eth_utils.is_integer": _eth_is_integer, "eth_utils.is_bytes": _eth_is_bytes,
}


# ---------------------------------------------------------------------------
# methods on concrete containers / symbolic bytes / ints / hash objects
# ---------------------------------------------------------------------------

def call_method(it, name, obj, args, kwargs):
    I = _I()
    tname, _, meth = name.partition(".")
    if name == "hash.digest":
        h = obj
        if h.key is not None:
            return Term("HMAC", (h.fn, I._hashable(_b2b(h.key)), I._hashable(_b2b(h.data))), "bytes")
        return Term("H", (h.fn, I._hashable(_b2b(h.data))), "bytes")
    if name == "object.__new__":
        if len(args) != 1 or not isinstance(args[0], ClassInfo):
            raise AnalysisError("object.__new__ with unexpected arguments")
        return I.Instance(args[0])
    if name == "struct.pack_method":
        if len(args) != 1:
            raise AnalysisError("Struct.pack with several values")
        return _struct_pack_value(it, obj.fmt, args[0], None)
    if name == "hash.copy":
        return I.HashObj(obj.fn, obj.data, key=obj.key)
    if name == "hash.update":
        so = it.world.__dict__.get("shared_objs", {}).get(id(obj))
        if so is not None and so[2] is obj:
            from .term import HistoryDependence
            fr = next((f for f in reversed(it.stack) if f.func is not None), None)
            raise HistoryDependence(fr.func.qualname if fr else so[0], f"{so[0]}.{so[1]}",
                                    "update() absorbs data into a module-level hash object: every later digest "
                                    "depends on what earlier calls absorbed", it.where(None))
        obj.data = t_concat([obj.data, args[0]])
        return None
    if tname == "field":
        return Term(meth + "_of", (Term("type", (obj,), "any"),), "field")
    if tname == "int" and meth == "to_bytes":
        x = obj
        n = args[0] if args else kwargs["length"]
        order = args[1] if len(args) > 1 else kwargs.get("byteorder", "big")
        signed = kwargs.get("signed", False)
        if order != "big" or signed:
            if is_sym(x) or is_sym(n):
                return Term("to_bytes", (x, n, order, signed), "bytes")
        if not is_sym(x) and isinstance(x, int) and x == 0 and is_sym(n):
            return Term("repeat", (b"\x00", n), "bytes")          # I2OSP(0, n) = n zero bytes
        if is_sym(x) or is_sym(n):
            bound = _byte_bound(x)
            fits = bound is not None and (bound is n or (isinstance(bound, int) and isinstance(n, int) and bound <= n))
            if not fits:
                it.emit("implicit_raise", exc="OverflowError", cond=("i2osp_range", x, n))
            # I2OSP(OS2IP(a) xor OS2IP(b), n) with len(a) = len(b) = n is the byte-wise xor of a and b
            if isinstance(x, Term) and x.op == "xor" and all(isinstance(u, Term) and u.op == "os2ip" for u in x.args):
                a_, b_ = x.args[0].args[0], x.args[1].args[0]
                if t_len(a_) is n or (isinstance(n, int) and t_len(a_) == n):
                    if t_len(b_) is n or (isinstance(n, int) and t_len(b_) == n):
                        from .term import t_xor
                        return t_xor(a_, b_)
            return Term("i2osp", (x, n), "bytes")
        try:
            return int(x).to_bytes(n, order, signed=signed)
        except OverflowError:
            it.raise_exc("OverflowError", "int too big to convert")
    if tname == "int" and meth == "bit_length" and not is_sym(obj):
        return obj.bit_length()
    if tname == "int" and meth == "bit_length":
        return Term("bit_length", (obj,), "int")
    if tname == "bytes" and meth in ("startswith", "endswith") and (is_sym(obj) or any(is_sym(a) for a in args)):
        return Term(meth, (I._hashable(obj),) + tuple(I._hashable(a) for a in args), "bool")
    if tname == "bytes" and isinstance(obj, Term) and meth in ("zfill", "rjust", "ljust", "lstrip", "rstrip", "strip"):
        # padding with ASCII '0' / a fill byte, stripping: opaque byte strings (none of them is I2OSP / a concatenation)
        return Term("bytes." + meth, (obj,) + tuple(I._hashable(a) for a in args), "bytes")
    if tname == "bytes" and isinstance(obj, Term):
        if meth == "join":
            raise AnalysisError("join on symbolic separator")
        raise AnalysisError(f"method {meth} on symbolic bytes")
    if tname in ("bytes", "bytearray") and meth == "join":
        parts = args[0]
        if is_sym(parts):
            raise AnalysisError("join over symbolic sequence")
        parts = list(parts)
        if obj != b"" and any(is_sym(p) for p in parts):
            raise AnalysisError("join with non-empty separator over symbolic parts")
        if any(is_sym(p) for p in parts):
            return t_concat(parts)
        return bytes(obj).join(bytes(p) for p in parts)
    if tname == "bytearray" and meth == "extend":
        # only concrete bytearrays arrive here
        v = args[0]
        if is_sym(v):
            raise AnalysisError("bytearray.extend(symbolic): rebind-model required")
        obj.extend(v)
        return None
    if tname == "list":
        if meth == "append":
            obj.append(args[0])
            return None
        if meth == "extend":
            obj.extend(it.iter_concrete(args[0], None))
            return None
        if meth == "pop":
            if not obj:
                it.raise_exc("IndexError", "pop from empty list")
            return obj.pop(*args)
        if meth == "index":
            for i, x in enumerate(obj):
                r = it.compare(ast.Eq(), x, args[0], None)
                if it.truth(r, None):
                    return i
            it.raise_exc("ValueError", "not in list")
        if meth == "copy":
            return list(obj)
    if tname == "tuple" and meth == "index":
        for i, x in enumerate(obj):
            r = it.compare(ast.Eq(), x, args[0], None)
            if it.truth(r, None):
                return i
        it.raise_exc("ValueError", "not in tuple")
    if tname == "dict":
        if meth in ("clear", "update", "setdefault", "pop", "popitem") :
            it.emit("shared_store", target=it.shared_name(obj), key=meth)
            if meth in ("clear", "update"):
                return None
            return Term("dict_get", (it.shared_name(obj), meth), "any")
        if meth == "keys":
            return list(obj.keys())
        if meth == "values":
            return list(obj.values())
        if meth == "items":
            return list(obj.items())
        if meth == "get":
            sr = it.shared_read(obj, args[0], None, "get()")
            default = args[1] if len(args) > 1 else None
            if sr == "miss":
                return default
            if sr == "fork":
                has = Term("dict_has", (it.shared_name(obj), I._hashable(args[0])), "bool")
                if it.truth(has, None):
                    return Term("dict_get", (it.shared_name(obj), I._hashable(args[0])), "any")
                return default
            if I._has_abstract(args[0]) or isinstance(args[0], AbstractValue):
                if obj:
                    # a constant, non-empty table looked up with a symbolic key (a dispatch table keyed by the class of a
                    # generic coordinate, …): the key may be one of the table's keys — undecided, never "absent"
                    raise AnalysisError(f"lookup of a symbolic key ({show(args[0])[:40]}) in a constant table with "
                                        f"{len(obj)} entries: outside the fragment")
                return default
            return obj.get(*args)
    raise AnalysisError(f"unmodelled method {name} on {show(obj)}")


def _xor_key(t):
    return (getattr(t, "_h", 0), repr(t))


def _byte_bound(x):
    """n such that 0 <= x < 256**n is evident from the shape of x (an int or a length term), else None"""
    if isinstance(x, bool):
        return 1
    if isinstance(x, int):
        return max(1, (x.bit_length() + 7) // 8) if x >= 0 else None
    if isinstance(x, Term):
        if x.op == "os2ip":
            return t_len(x.args[0])
        if x.op in ("xor", "or", "and"):
            bs = [_byte_bound(u) for u in x.args]
            if any(b is None for b in bs):
                return None
            if bs[0] is bs[1] or bs[0] == bs[1]:
                return bs[0]
            if all(isinstance(b, int) for b in bs):
                return max(bs) if x.op != "and" else min(bs)
        if x.op == "mod" and isinstance(x.args[1], int) and x.args[1] > 0:
            return ((x.args[1] - 1).bit_length() + 7) // 8 or 1
    return None


def _b2b(v):
    if isinstance(v, SymByteArray):
        return v.value
    return bytes(v) if isinstance(v, bytearray) else v
