"""C14 — optimized field classes compute what the reference classes compute;
sgn0 agrees with RFC 9380."""
from __future__ import annotations

import itertools

from ..term import AnalysisError, AbstractValue, Term, var
from ..interp import World, Interp, Instance
from ..fieldcheck import FieldSubject, run_fq, run_fqp
from ..ecalg import FieldSym
from ..poly import Poly, Rat
from .C08 import synthetic_classes

PAIRS = [(f"py_ecc.fields.{curve}_{cn}", f"py_ecc.fields.optimized_{curve}_{cn}") for curve in ("bn128", "bls12_381")
         for cn in ("FQ", "FQ2", "FQ12")]


def rfc_sgn0(parities, zeros):
    """RFC 9380 §4.1 sgn0 for an element with m coordinates (little-endian order)"""
    sign, zero = 0, 1
    for s_i, z_i in zip(parities, zeros):
        sign = sign or (zero and s_i)
        zero = zero and z_i
    return int(bool(sign))


class Coef(AbstractValue):
    """a canonical coefficient 0 <= c < p known only through its parity and whether it is zero.  The operations RFC 9380's
    sgn0 may use (c % 2, c & 1, c == 0, c > 0, c % p) are decided; anything else is an opaque integer, on which branches fork"""
    sort = "int"
    __slots__ = ("name", "parity", "zero", "p")

    def __init__(self, name, parity, zero, p):
        self.name, self.parity, self.zero, self.p = name, parity, zero, p

    def v_binop(self, op, other, reflected, it):
        if not reflected and isinstance(other, int) and not isinstance(other, bool):
            if op == "mod" and other == 2:
                return self.parity
            if op == "and" and other == 1:
                return self.parity
            if op == "mod" and other == self.p:
                return self
        if reflected and op == "and" and other == 1:
            return self.parity
        a, b = (other, var(self.name, "int")) if reflected else (var(self.name, "int"), other)
        from ..term import t_arith
        return t_arith(op, a, b) if isinstance(a, (int, Term)) and isinstance(b, (int, Term)) else NotImplemented

    def v_compare(self, op, other, it):
        if isinstance(other, int) and not isinstance(other, bool) and other == 0:
            return {"==": self.zero, "!=": not self.zero, ">": not self.zero, ">=": True, "<": False, "<=": self.zero}[op]
        from ..term import t_cmp
        if isinstance(other, (int, Term)):
            return t_cmp(op, var(self.name, "int"), other)
        return NotImplemented

    def v_truth(self, it):
        return not self.zero

    def v_int(self, it):
        return self

    def v_isinstance(self, T, it):
        if T == "int":
            return True
        if T in ("bool", "bytes", "str", "float", "list", "tuple", "bytearray"):
            return False
        return NotImplemented

    def __repr__(self):
        return f"{self.name}[{'odd' if self.parity else 'even'},{'0' if self.zero else '≠0'}]"

    def __deepcopy__(self, memo):
        return self


def sgn0_table(w, cls, degree, extra_args=None, coef_cls=None):
    """evaluate the class's sgn0 on every (parity, is-zero) abstraction of the canonical coefficients; a branch on anything
    else about a coefficient forks, and every fork must agree with RFC 9380"""
    from ..interp import enumerate_paths, Instance
    it0 = Interp(w, native_fields=False)
    m = it0.find_method(cls, "sgn0")
    if m is None:
        return None, None
    p = it0.class_attr(cls, "field_modulus")
    bad = []
    n = 0
    reps = (0, 2, 1)
    if degree is None:
        combos = [(r,) for r in reps]
    elif degree <= 4:
        combos = list(itertools.product(reps, repeat=degree))
    else:
        # degree 12: all patterns of the form  zeros^k · (a, b) · arbitrary tail sample  cover the 4·3 transitions
        combos = set()
        for k in range(degree):
            for a in reps:
                for tail in reps:
                    c = [0] * k + [a] + [tail] * (degree - k - 1)
                    combos.add(tuple(c))
        combos = sorted(combos)
    # the constructor of the extension classes keeps its coefficients as given — ints or base-field objects (IntOrFQ): both
    # spellings of the same element must have the same sign
    modes = ["int"]
    if degree is not None and coef_cls is not None:
        modes.append("FQ objects")
    for mode in modes:
        for combo in combos:
            coefs = [Coef(f"c{i}", c % 2, c == 0, p) for i, c in enumerate(combo)]

            def run1(it, coefs=coefs, mode=mode):
                cs = list(coefs) if mode == "int" else [it.instantiate(coef_cls, [c], {}) for c in coefs]
                if extra_args is not None:
                    inst = it.instantiate(cls, [cs] + extra_args(len(coefs)), {})
                else:
                    inst = it.instantiate(cls, [cs[0]] if degree is None else [cs], {})
                return it.call_func(m, [inst], {})
            want = rfc_sgn0([c % 2 for c in combo], [c == 0 for c in combo])
            n += 1
            for pth in enumerate_paths(w, run1, native_fields=False, max_paths=200):
                got = pth.value if pth.outcome == "return" else f"raises {pth.value.clsname()}"
                if pth.outcome != "return" or isinstance(got, (Term, AbstractValue)) or bool(got) != bool(want):
                    bad.append((combo if mode == "int" else (mode,) + tuple(combo),
                                got if not isinstance(got, (Term, AbstractValue)) else "depends on more than parity/zero-ness", want))
                    break
    return n, bad


def run(chk, repo, tier):
    chk.explanation = ("Each operator present in both the reference and the optimized class is evaluated on the same symbolic "
                       "operands through both class bodies; the stored results are compared with each other (and, in C08, with "
                       "the quotient-ring specification). sgn0 is tabulated over the (parity, is-zero) abstraction of the "
                       "coefficients against RFC 9380 §4.1.")
    # restate C20
    from . import C20 as _dep_C20
    from ..report import SubCheck as _SubCheck
    chk.rule("C14.R3", "the field classes hold no shared mutable state (class-level or module-level caches, in-place operators): C20's obligations re-stated — otherwise results depend on which class was used first", 10)
    _sub = _SubCheck()
    _err = None
    try:
        _dep_C20.run(_sub, repo, tier)
    except AnalysisError as _e:
        _err = _e
    for _rule, _construct, _key, _ok, _detail, _where in _sub.obs:
        if _construct.startswith("py_ecc.fields") or _construct.startswith("py_ecc.utils") or "fields/" in str(_where):
            chk.ob("C14.R3", _construct, f"[{_rule}] {_key}", _ok, _detail, _where)
    if _err is not None and all(o[3] for o in _sub.obs):
        raise _err
    chk.rule("C14.R1", "operator-wise sibling agreement: optimized result ≡ reference result for every shared operator and operand kind", 6 * 12)
    chk.rule("C14.R4", "__pow__ of the reference and the optimized classes both equal self^n for every n ≥ 0 (loop invariants, "
                       "C08.R5/R6 re-stated), so they agree for every exponent, not only the small ones tabulated by R1", 12)
    chk.rule("C14.R2", "sgn0 truth tables equal RFC 9380 §4.1 (m = 1, 2, 12; generic loop exhaustively for m = 3, 4)", 8)
    chk.not_decided += ["inv / division by an extension-field element (polynomial Euclid, as C08)",
                        "operators present in only one file (__mod__, sgn0, FQ-scalar arm of the reference FQP.__mul__) have no sibling"]
    chk.depends_on += ["C08"]
    w = World(repo)
    pairs = [(repo.cls(a), repo.cls(b)) for a, b in PAIRS]
    syn = synthetic_classes(repo)
    if tier != "thorough":
        # quick tier: one dense quadratic modulus (linear term present), which the two sparse real moduli never exercise
        syn = [c for c in syn if "FQ2_dense_4b" in c.name]
    ref = [c for c in syn if "_ref_" in c.name]
    opt = [c for c in syn if "_opt_" in c.name]
    pairs += list(zip(ref, opt))
    for rc, oc in pairs:
        Sr, So = FieldSubject(w, rc), FieldSubject(w, oc)
        if Sr.p != So.p or Sr.kind != So.kind:
            chk.ob("C14.R1", f"{rc.qualname} / {oc.qualname}", "same field", False, "moduli or kinds differ", "")
            continue
        rr = run_fq(Sr) if Sr.kind == "FQ" else run_fqp(Sr)
        ro = run_fq(So) if So.kind == "FQ" else run_fqp(So)
        dr = {k: (ok, det) for k, ok, det, _ in rr}
        do = {k: (ok, det, wh) for k, ok, det, wh in ro}
        for k in sorted(set(dr) & set(do)):
            # both equal the same specification value ⇒ equal to each other; a mismatch on either side breaks agreement
            ok = dr[k][0] and do[k][0]
            side = "" if ok else ("optimized: " + do[k][1] if not do[k][0] else "reference: " + dr[k][1])
            chk.ob("C14.R1", f"{oc.qualname} vs {rc.name}", k, ok, side, do[k][2])
    # comparison with an int operand: the stored residue against the int as given, or against its residue — both siblings alike
    from ..fieldcheck import compare_modes
    for rc, oc in pairs:
        Sr, So = FieldSubject(w, rc), FieldSubject(w, oc)
        if Sr.kind != "FQ":
            continue
        mr, mo = compare_modes(Sr), compare_modes(So)
        for meth in sorted(mr):
            if "absent" in (mr[meth], mo[meth]):
                continue
            chk.ob("C14.R1", f"{oc.qualname} vs {rc.name}", f"{meth}(int): same treatment of the int operand", mr[meth] == mo[meth],
                   f"reference: {mr[meth]}, optimized: {mo[meth]}", oc.module.relpath)
    sgn0_obligations(chk, repo, w)
    # x ** n for arbitrary n: both files' __pow__ are shown to return self^n (C08.R5/R6 re-stated) — hence to agree
    from .C08 import pow_obligations
    pow_obligations(chk, repo, w, r5="C14.R4", r6="C14.R4")


def sgn0_obligations(chk, repo, w):
    # ---- sgn0
    for q, deg in (("py_ecc.fields.optimized_bls12_381_FQ", None), ("py_ecc.fields.optimized_bn128_FQ", None),
                   ("py_ecc.fields.optimized_bls12_381_FQ2", 2), ("py_ecc.fields.optimized_bn128_FQ2", 2),
                   ("py_ecc.fields.optimized_bls12_381_FQ12", 12), ("py_ecc.fields.optimized_bn128_FQ12", 12)):
        cls = repo.cls(q)
        n, bad = sgn0_table(w, cls, deg, coef_cls=repo.cls(q.rsplit("_", 1)[0] + "_FQ") if deg else None)
        if n is None:
            chk.ob("C14.R2", q, "sgn0 present", False, "no sgn0 method", "")
            continue
        chk.ob("C14.R2", q, f"sgn0 over {n} (parity, zero) coefficient patterns", not bad,
               "; ".join(f"coefficients {c}: sgn0 = {g}, RFC {w_}" for c, g, w_ in bad[:3]), "py_ecc/fields/optimized_field_elements.py")
    generic_sgn0(chk, repo, w)


def generic_sgn0(chk, repo, w):
    """the generic FQP.sgn0 loop, exhaustively for degree 3 and 4 (every (sign, zero) state transition at every position)"""
    from ..loader import ClassInfo
    m = repo.module("py_ecc.fields.optimized_field_elements")
    for d in (3, 4):
        cls = ClassInfo(m, f"synthetic_FQP_deg{d}", None, [m.classes["FQP"]], {"field_modulus": 2**31 - 1})
        n, bad = sgn0_table(w, cls, d, extra_args=lambda k: [[1] * k])
        chk.ob("C14.R2", f"py_ecc.fields.optimized_field_elements.FQP.sgn0[degree {d}]", f"exhaustive over {n} coefficient patterns",
               not bad, "; ".join(f"coefficients {c}: sgn0 = {g}, RFC {w_}" for c, g, w_ in (bad or [])[:3]),
               "py_ecc/fields/optimized_field_elements.py")


MANIFEST = {
    "level": "other",
    "technique": "static analysis: sibling cross-check by abstract interpretation of both class bodies on the same symbolic "
                 "operands (polynomial domain modulo p); finite truth tables for sgn0 over a (parity, is-zero) abstraction",
    "text": "Decides for all elements: every operator present in both files gives the same stored canonical value in the optimized "
            "and the reference class (prime, quadratic, degree-12; both curves; synthetic moduli in thorough) — by induction over "
            "expression trees, every straight-line program agrees — and sgn0 equals RFC 9380 §4.1 on every parity/zero pattern. "
            "__pow__ agrees for every exponent (both satisfy the loop invariant), inv() agrees on the quadratic extensions (both are the "
            "ring inverse on every path); inv on the degree-12 classes is not decided.",
    "note": "sgn0 tables are evaluated with int coefficients and with base-field objects as coefficients (the constructor keeps what it is given). Shares its obligations with C08 (each side is also compared with the quotient-ring specification).",
}
