"""C10 — hash_to_curve follows RFC 9380 and lands in the prime-order subgroup.

R1 pipeline terms (hash_to_G1/G2, map_to_curve, clear_cofactor)
R2 simplified SWU: sqrt-of-ratio helpers (soundness, completeness under Fermat), x-candidates incl. the exceptional
   case, output on E' on every path, 'unreachable' arm infeasible
R3 sign: sgn0 of the affine root compared with sgn0(t), negation on the != edge, before scaling by the denominator
R4 isogenies: Horner loops compute the rational map given by the coefficient tables, and that map sends E' to E
R5 constants (Z non-square, exponents equal their names, suite parameters)
"""
from __future__ import annotations

from ..term import AnalysisError, AbstractValue, Term, var, show, atom_of
from ..interp import World, Interp, Oracle, Path, Raised, _Return, _hashable
from ..fieldmodel import FieldVal
from ..nt import ExtField, PrimeField
from ..kpoly import KT
from ..poly import Poly, reduce_by
from ..swu import LR, LRCtx, SW, SWCtx, Pruned, small_order_roots, k_of
from ..spec.params import BLS

H2C = "py_ecc.bls.hash_to_curve"
SWUM = "py_ecc.optimized_bls12_381.optimized_swu"
CONS = "py_ecc.optimized_bls12_381.constants"
CCM = "py_ecc.optimized_bls12_381.optimized_clear_cofactor"
OC = "py_ecc.optimized_bls12_381.optimized_curve"
Q = BLS["p"]

# RFC 9380 §8.8.1 / §8.8.2 suite parameters (oracle side)
RFC_G1 = {"A": 0x144698a3b8e9433d693a02c96d4982b0ea985383ee66a8d8e8981aefd881ac98936f8da0e0f97f5cf428082d584c1d,
          "B": 0x12e2908d11688030018b12e8753eee3b2016c1f0f24f4070a0b9c14fcef35ef55a23215a316ceaa5d1cc48e98e172be0,
          "Z": 11}
RFC_G2 = {"A": (0, 240), "B": (1012, 1012), "Z": (Q - 2, Q - 1)}


def paths_pruned(world, run, max_paths=600, **interp_kw):
    """enumerate_paths that tolerates Pruned (numerically infeasible) paths"""
    paths = []
    work = [[]]
    while work:
        prefix = work.pop()
        orc = Oracle(prefix)
        it = Interp(world, orc, **interp_kw)
        p = Path()
        try:
            p.value = run(it)
            p.outcome = "return"
        except Raised as r:
            p.outcome = "raise"
            p.value = r.exc
        except Pruned as e:
            p.outcome = "pruned"
            p.value = str(e)
        p.facts = list(it.fact_log)
        p.decisions = list(orc.trace)
        p.interp = it
        paths.append(p)
        if len(paths) > max_paths:
            raise AnalysisError(f"more than {max_paths} paths")
        for i in range(len(prefix), len(orc.trace)):
            if orc.trace[i][0] is True:
                work.append([c for c, _ in orc.trace[:i]] + [False])
    return paths


# ---------------------------------------------------------------------------
# R2 part 1: the square-root-of-ratio helpers
# ---------------------------------------------------------------------------
def analyse_sqrt(chk, w, f, K, order, trials, label):
    """-> (atom=(alpha,beta,e), k, {omega: (flag, c)}) or None"""
    def run_for(omega):
        out = {}

        def run(it):
            cx = LRCtx(K, order, omega)
            out["cx"] = cx
            r = it.call_func(f, [LR.mono(cx, 1, 0), LR.mono(cx, 0, 1)], {})
            if not (isinstance(r, tuple) and len(r) == 2):
                raise AnalysisError(f"{f.qualname} does not return a pair")
            flag = it.truth(r[0])
            return flag, r[1], cx
        ps = paths_pruned(w, run, native_fields=True)
        return ps
    ps = run_for(K.one())
    rets = [p for p in ps if p.outcome == "return"]
    if not rets:
        chk.ob("C10.R2", f.qualname, f"{label}: helper returns", False, f"{ps[0].outcome}: {ps[0].value!r}", f.where)
        return None
    atom = rets[0].value[2].atom
    if atom is None:
        chk.ob("C10.R2", f.qualname, f"{label}: candidate is u^a v^b (u^α v^β)^e with a large exponent e", False, "no large power found", f.where)
        return None
    al, be, e = atom
    k, roots = small_order_roots(K, order, e, trials)
    ok_k = roots is not None and k >= 2 and al % 2 == 1 and be % 2 == 1
    chk.ob("C10.R2", f.qualname, f"{label}: with m = u^{al} v^{be} and e = {hex(e)[:14]}…, m^(2e+1) is a root of unity of order | {k} "
                                 "(Fermat), and m·(v/u) is a square monomial", ok_k,
           f"k = {k}", f.where)
    if not ok_k:
        return None
    summ = {}
    bad = []
    for om in roots:
        ps = run_for(om)
        rets = [p for p in ps if p.outcome == "return"]
        if len(ps) != 1 or len(rets) != 1:
            bad.append(f"ω case {roots.index(om)}: {len(ps)} paths ({[p.outcome for p in ps]}): a test is undecided or the helper raises")
            continue
        flag, res, cx = rets[0].value
        if not isinstance(res, LR):
            bad.append(f"ω case {roots.index(om)}: result {res!r}")
            continue
        u, v = LR.mono(cx, 1, 0), LR.mono(cx, 0, 1)
        # P3 shape: res² v / u constant
        sq = res._mul(res)._mul(v)._mul(LR.mono(cx, -1, 0))
        if set(sq.t) - {(0, 0, 0)} or not sq.t:
            bad.append(f"ω case {roots.index(om)}: result²·v/u is not a constant")
            continue
        c = sq.t[(0, 0, 0)]
        is_sq = K.pow(om, k // 2) == K.one()
        if flag and c != K.one():
            bad.append(f"ω case {roots.index(om)}: reports a valid root but result²·v ≠ u")
        if flag != is_sq:
            bad.append(f"ω case {roots.index(om)}: u/v is {'a' if is_sq else 'no'} square but the helper reports {flag}")
        summ[om] = (flag, c)
    chk.ob("C10.R2", f.qualname, f"{label}: for each of the {k} values of ω: reported flag ⇔ u/v is a square; flag ⇒ result²·v = u; "
                                 "result²·v/u is a constant", not bad, "; ".join(bad[:3]), f.where)
    if bad:
        return None
    return atom, k, summ


# ---------------------------------------------------------------------------
# R2 part 2 / R3: the map
# ---------------------------------------------------------------------------
def _is_sign(b):
    return "sgn0" in b or "returned Y" in b


def analyse_swu(chk, repo, w, f, sq, K, A, B, Z, sqinfo, label, order):
    (al, be, e), k, summ = sqinfo
    one = K.one()
    t = KT.var(K)
    cA, cB, cZ = (KT.const(K, x) for x in (A, B, Z))
    T = cZ * t * t + cZ * cZ * t ** 4
    D0 = -(cA * T)
    N0 = cB * (T + KT.const(K, one))
    Dx = cZ * cA
    Nx = cB
    nreg = nexc = 0
    bad = []
    raised = []
    for om, (flag, c) in summ.items():
        def run(it, om=om, flag=flag, c=c):
            cx = SWCtx(K)
            it.cx = cx

            def summary(it2, fn, args, kwargs, node):
                base = SW({}, cx)
                args = [a if isinstance(a, SW) else base._lift(a) for a in args]
                if len(args) != 2 or any(a is None for a in args):
                    raise AnalysisError(f"{fn.qualname} called with unexpected arguments")
                pu, pv = args[0].pure(), args[1].pure()
                if pu is None or pv is None:
                    raise AnalysisError("square-root helper called on values that already contain its result")
                if cx.G is not None:
                    raise AnalysisError("square-root helper called twice")
                if cx.M is not None:
                    ru, rv = pu % cx.M, pv % cx.M
                    if ru.is_const() and rv.is_const() and not ru.is_zero() and not rv.is_zero():
                        m = K.mul(K.pow(ru.c[0], al), K.pow(rv.c[0], be))
                        if K.pow(m, 2 * e + 1) != om:
                            raise Pruned("ω differs from the value computed for this constant ratio")
                if cx.zero_status(args[1]) is not False:
                    cx.notes.append("the denominator handed to the square-root helper may vanish on this path "
                                    "(exceptional case Z²t⁴ + Zt² = 0 not handled)")
                else:
                    cx.nonzero.append(pv)
                cx.G = (c, pu, pv)
                return (flag, SW.gamma(cx))
            it.summaries = dict(it.summaries)
            it.summaries[sq.qualname] = summary
            return it.call_func(f, [SW.t(cx)], {})
        for p in paths_pruned(w, run):
            if p.outcome == "pruned":
                continue
            cx = p.interp.cx
            exc = cx.M is not None
            tag = f"ω#{list(summ).index(om)} {'exceptional' if exc else 'regular'} path {p.branch_lines()}"
            nb = len(bad)
            if p.outcome == "raise":
                raised.append(f"{tag}: raises {p.value.clsname()} at {p.value.where}")
                continue
            if exc:
                nexc += 1
            else:
                nreg += 1
            v = p.value
            if isinstance(v, tuple) and len(v) == 3:
                v = tuple(x if isinstance(x, SW) else SW({}, cx)._lift(x) for x in v)
            if not (isinstance(v, tuple) and len(v) == 3 and all(isinstance(x, SW) for x in v)) or cx.G is None:
                bad.append(f"{tag}: returns {v!r}")
                continue
            lift = lambda kt: SW({0: kt}, cx)
            X, Y, Zc = v
            Nr, Dr = (Nx, Dx) if exc else (N0, D0)
            for note in cx.notes:
                bad.append(f"{tag}: {note}")
            # u/v = g(x1) for the RFC's x1
            _c, gu, gv = cx.G
            gref = Nr ** 3 + cA * Nr * Dr * Dr + cB * Dr ** 3
            if not lift(gu * Dr ** 3 - gv * gref).is_zero():
                bad.append(f"{tag}: the ratio handed to the square-root helper is not g(x1) for the RFC's x1")
            # x-coordinate
            mult = KT.const(K, one) if flag else cZ * t * t
            if not (X._mul(lift(Dr))._add(Zc._mul(lift(Nr * mult)), -1)).is_zero():
                bad.append(f"{tag}: x = X/Z is not {'x1' if flag else 'Z·t²·x1'}")
            # on E'
            lhs = Y._mul(Y)._mul(Zc)
            rhs = X._mul(X)._mul(X)._add(lift(cA)._mul(X)._mul(Zc)._mul(Zc), 1)._add(lift(cB)._mul(Zc)._mul(Zc)._mul(Zc), 1)
            if not lhs._add(rhs, -1).is_zero():
                bad.append(f"{tag}: returned (X, Y, Z) does not satisfy Y²Z = X³ + A'XZ² + B'Z³")
            if cx.zero_status(Zc) is not False:
                bad.append(f"{tag}: returned Z is not provably non-zero")
            # sign
            differ = None
            for fa, tr, _ in p.facts:
                if isinstance(fa, Term) and fa.op == "eq" and all(isinstance(a, Term) and a.op == "sgn0" for a in fa.args):
                    differ = not tr
            if differ is None or len(cx.sgn_log) != 2 or not (cx.sgn_log[0].pure() == t):
                bad.append(f"{tag}: sgn0(t) is not compared with sgn0 of a candidate y ({len(cx.sgn_log)} sgn0 reads)")
            else:
                yc = cx.sgn_log[1]
                want = yc._mul(Zc)
                if differ:
                    want = -want
                if not Y._add(want, -1).is_zero():
                    bad.append(f"{tag}: returned Y is not {'−' if differ else ''}y·Z for the y whose sgn0 was compared "
                               f"(sign {'differs' if differ else 'agrees'})")
                # the compared y is the affine root: y² v = u*
                if not yc._mul(yc)._mul(lift(gv))._add(lift(gu * (KT.const(K, one) if flag else (cZ * t * t) ** 3)), -1).is_zero():
                    bad.append(f"{tag}: the y whose sgn0 is compared is not the affine root of g(x)")
            mine = bad[nb:]
            key = (f"{label} ω#{list(summ).index(om)} ({'square' if flag else 'non-square'} g(x1)) {'exceptional' if exc else 'regular'} "
                   f"sgn0 {'differs' if differ else 'agrees'}")
            chk.ob("C10.R2", f.qualname, key + " | x-candidate, on E', Z≠0", not [b for b in mine if not _is_sign(b)],
                   "; ".join(b for b in mine if not _is_sign(b))[:500], f.where)
            chk.ob("C10.R3", f.qualname, key + " | sign rule", not [b for b in mine if _is_sign(b)],
                   "; ".join(b for b in mine if _is_sign(b))[:500], f.where)
    chk.ob("C10.R2", f.qualname, f"{label}: on every feasible path (ω ∈ μ_{k} × regular/exceptional × sign) x is the RFC's x1 or Z·t²·x1, "
                                 "chosen by squareness of g(x1); the output is on E'; Z ≠ 0",
           not [b for b in bad if "sgn0" not in b and "returned Y" not in b] and nreg >= k and nexc >= 1,
           "; ".join([b for b in bad if "sgn0" not in b and "returned Y" not in b][:3]) or f"{nreg} regular + {nexc} exceptional paths", f.where)
    chk.ob("C10.R2", f.qualname, f"{label}: no path raises (the 'unreachable' arm is infeasible for every ω)", not raised,
           "; ".join(raised[:3]), f.where)
    sb = [b for b in bad if "sgn0" in b or "returned Y" in b]
    chk.ob("C10.R3", f.qualname, f"{label}: sgn0(t) is compared with sgn0 of the affine root, y is negated on the != edge, then scaled by Z",
           not sb and nreg >= k, "; ".join(sb[:3]), f.where)
    return nreg + nexc


# ---------------------------------------------------------------------------
# R4 isogenies
# ---------------------------------------------------------------------------
class PV(AbstractValue):
    """polynomial value over Z/q[I] (I² = −1 applied at the end)"""
    sort = "field"
    __slots__ = ("p",)

    def __init__(self, p):
        self.p = p

    @staticmethod
    def lift(o):
        if isinstance(o, PV):
            return o.p
        if isinstance(o, bool):
            o = int(o)
        if isinstance(o, int):
            return Poly.const(o, Q)
        if isinstance(o, FieldVal):
            if o.kind == "FQ":
                return Poly.const(o.v, Q)
            if len(o.v) == 2:
                return Poly.const(o.v[0], Q) + Poly.const(o.v[1], Q) * Poly.var("I", Q)
        return None

    def v_binop(self, op, other, reflected, it):
        if op == "pow":
            if reflected or not isinstance(other, int) or other < 0 or other > 64:
                raise AnalysisError("power in the isogeny map")
            return PV(red(self.p ** other))
        o = PV.lift(other)
        if o is None:
            return NotImplemented
        a, b = (o, self.p) if reflected else (self.p, o)
        if op == "add":
            return PV(a + b)
        if op == "sub":
            return PV(a - b)
        if op == "mul":
            return PV(red(a * b))
        raise AnalysisError(f"operator {op} in the isogeny map")

    def __neg__(self):
        return PV(Poly.const(0, Q) - self.p)

    def __repr__(self):
        return f"PV({len(self.p.t)} terms)"

    def __deepcopy__(self, memo):
        return self


_I2 = [("I", 2, Poly.const(-1, Q))]


def red(p):
    return reduce_by(p, _I2) if p.degree_in("I") >= 2 else p


def analyse_iso(chk, repo, w, f, coeffs, K, A, B, bcurve, label, want_deg):
    it = Interp(w)
    x, y, z = (PV(Poly.var(n, Q)) for n in ("x", "y", "z"))
    r = it.call_func(f, [x, y, z], {})
    if not (isinstance(r, tuple) and len(r) == 3 and all(isinstance(c, PV) for c in r)):
        chk.ob("C10.R4", f.qualname, f"{label}: returns a projective triple", False, f"got {r!r}", f.where)
        return
    xo, yo, zo = (c.p for c in r)
    if not (isinstance(coeffs, tuple) and len(coeffs) == 4):
        chk.ob("C10.R4", f.qualname, f"{label}: coefficient table has four rows", False, "", f.where)
        return
    rows = []
    for row in coeffs:
        ks = [k_of(K, c) for c in row]
        while ks and ks[-1] == K.zero():
            ks.pop()
        rows.append(ks)
    XN, XD, YN, YD = rows

    def hom(ks):
        """Σ k_i x^i z^(d-i) as Poly"""
        d = len(ks) - 1
        tot = Poly.const(0, Q)
        for i, kk in enumerate(ks):
            c = Poly.const(kk, Q) if isinstance(kk, int) else Poly.const(kk[0], Q) + Poly.const(kk[1], Q) * Poly.var("I", Q)
            tot = tot + c * (Poly.var("x", Q) ** i) * (Poly.var("z", Q) ** (d - i))
        return tot, d
    (xn, dxn), (xd, dxd), (yn, dyn), (yd, dyd) = (hom(r_) for r_ in rows)
    zv, yv = Poly.var("z", Q), Poly.var("y", Q)
    # x_out/z_out = XN(x/z)/XD(x/z) ; y_out/z_out = (y/z)·YN(x/z)/YD(x/z)
    e1 = red(xo * xd * zv ** dxn - zo * xn * zv ** dxd)
    e2 = red(yo * yd * zv ** dyn * zv - zo * yv * yn * zv ** dyd)
    chk.ob("C10.R4", f.qualname, f"{label}: Horner loops evaluate x' = XN(x/z)/XD(x/z), y' = (y/z)·YN(x/z)/YD(x/z) for the tabulated coefficients",
           e1.is_zero() and e2.is_zero(), f"residues: {len(e1.t)} / {len(e2.t)} terms", f.where)
    # the tabulated map sends E' to E  (univariate identity)
    kt = lambda ks: KT(K, ks)
    g = KT(K, [B, A, K.zero(), K.one()])
    lhs = kt(YN) ** 2 * g * kt(XD) ** 3
    rhs = kt(XN) ** 3 * kt(YD) ** 2 + (kt(XD) ** 3 * kt(YD) ** 2).scale(bcurve)
    degs = (len(XN) - 1, len(XD) - 1, len(YN) - 1, len(YD) - 1)
    chk.ob("C10.R4", f"{CONS}.{label}_MAP_COEFFICIENTS", f"{label}: (y·YN/YD)² = (XN/XD)³ + b modulo y² = x³ + A'x + B' (the table is a map E' → E), "
                                                          f"degrees {want_deg}", (lhs - rhs).is_zero() and degs == want_deg,
           f"degrees {degs}; residue degree {(lhs - rhs).deg()}", "py_ecc/optimized_bls12_381/constants.py")


# ---------------------------------------------------------------------------
def opaque(op, sort="point"):
    def s(it, f, args, kwargs, node):
        return Term(op, tuple(_hashable(a) for a in args), sort)
    return s


def pipeline(chk, repo, w):
    m = repo.module(H2C)
    want_res = {"add": f"{OC}.add", "iso_map_G1": f"{SWUM}.iso_map_G1", "iso_map_G2": f"{SWUM}.iso_map_G2",
                "optimized_swu_G1": f"{SWUM}.optimized_swu_G1", "optimized_swu_G2": f"{SWUM}.optimized_swu_G2",
                "multiply_clear_cofactor_G1": f"{CCM}.multiply_clear_cofactor_G1",
                "multiply_clear_cofactor_G2": f"{CCM}.multiply_clear_cofactor_G2"}
    bad = []
    for nm, q in want_res.items():
        r = repo.resolve_binding(m, nm)
        if not repo.is_func(r, q):
            bad.append(f"{nm} -> {r[1].qualname if r and r[0] == 'func' else r}")
    chk.ob("C10.R1", H2C, "add / swu / iso / clear-cofactor names resolve to the optimized BLS12-381 modules", not bad, "; ".join(bad), m.relpath)
    msg, dst = var("msg", "bytes"), var("DST", "bytes")
    Hf = var("H", "hashfn")
    for g, cnt in (("G1", "FQ"), ("G2", "FQ2")):
        def h2f(it, f, args, kwargs, node, cnt=cnt):
            if len(args) != 4 or args[1] != 2:
                raise AnalysisError("hash_to_field called with count != 2")
            t = Term("hash_to_field", (cnt, _hashable(args[0]), args[1], _hashable(args[2]), _hashable(args[3])), "seq")
            return (Term("item", (t, 0), "field"), Term("item", (t, 1), "field"))

        def swu(it, f, args, kwargs, node, g=g):
            s = Term("sswu" + g, (_hashable(args[0]),), "point")
            return tuple(Term("item", (s, i), "field") for i in range(3))
        S = {f"{H2C}.hash_to_field_{cnt}": h2f, f"{SWUM}.optimized_swu_{g}": swu, f"{SWUM}.iso_map_{g}": opaque("iso" + g),
             f"{OC}.add": opaque("add"), f"{CCM}.multiply_clear_cofactor_{g}": opaque("clear" + g)}
        for qn in S:
            repo.func(qn)
        f = repo.func(f"{H2C}.hash_to_{g}")
        from ..interp import enumerate_paths
        hpaths = enumerate_paths(w, lambda it, f=f: it.call_func(f, [msg, dst, Hf], {}), summaries=S)
        hf = Term("hash_to_field", (cnt, msg, 2, dst, Hf), "seq")

        def mp(i):
            s = Term("sswu" + g, (Term("item", (hf, i), "field"),), "point")
            return Term("iso" + g, tuple(Term("item", (s, j), "field") for j in range(3)), "point")
        want = Term("clear" + g, (Term("add", (mp(0), mp(1)), "point"),), "point")
        badp = []
        for pth in hpaths:
            pd = " ".join(pth.branch_lines()[-3:]) or "(straight line)"
            if pth.outcome != "return":
                badp.append(f"raises {pth.value.clsname()} at {pth.value.where} on path {pd}")
            elif _hashable(pth.value) is not want:
                badp.append(f"got {show(pth.value)[:200]} on path {pd}")
        chk.ob("C10.R1", f.qualname, f"clear_cofactor(iso(sswu(u0)) + iso(sswu(u1))), (u0, u1) = hash_to_field(msg, 2, DST, H), on every path",
               not badp and bool(hpaths), "; ".join(badp[:2]) or f"{len(hpaths)} path(s)", f.where)


def run(chk, repo, tier):
    chk.explanation = ("The two sqrt-of-ratio helpers are walked with u, v as units of a Laurent ring and the large power as an atom π with "
                       "π² = ω/m (ω = m^(2e+1) a root of unity of order | k by Fermat), once per ω ∈ μ_k; the SWU maps are walked with t "
                       "symbolic in K[t] and the helper's result Γ subject to Γ²v = c·u, zero tests decided exactly by gcd/remainder in "
                       "K[t] (also modulo the exceptional-case condition); every feasible path's output is compared with RFC 9380's "
                       "x1 / x2, the curve E' and the sign rule. The isogeny code is walked with symbolic (x, y, z) and compared with "
                       "the rational map of the tabulated coefficients, which is checked to send E' to E.")
    chk.rule("C10.R1", "pipeline terms and name resolution; expand_message_xmd / hash_to_field as C15 requires", 3 + 10)
    chk.rule("C10.R2", "simplified SWU per path vs RFC 9380 §6.6.2 (F.2), incl. exceptional case; sqrt-of-ratio helpers sound and complete", 8 + 20)
    chk.rule("C10.R3", "sign rule sgn0(y) = sgn0(t) on the affine root; sgn0 is RFC 9380 §4.1 (C14.R2)", 2 + 20 + 6)
    chk.rule("C10.R4", "isogeny code = rational map of the coefficient tables; the tables define maps E' → E", 4)
    chk.rule("C10.R6", "field arithmetic under the map: operators of optimized_bls12_381_FQ / FQ2 are the quotient-ring operations on "
                       "canonical residues and == is exact (C08 re-stated for these two classes)", 30)
    chk.rule("C10.R5", "suite constants: A', B', Z as in RFC 9380 §8.8; Z non-square; exponents equal their names", 4)
    chk.not_decided += ["Fermat's little theorem in F_p and F_p² (axiom: turns the large powers into roots of unity)",
                        "g(x) ≠ 0 for every x in the field (E' has odd order — it is isogenous to E — so no point with y = 0)",
                        "numerical agreement of the isogeny coefficient tables with RFC 9380 Appendix E beyond 'is a degree-3/11 "
                        "map E' → E' (an alternative isogeny would change every output and the RFC vectors in the suite)",
                        "every ω ∈ μ_k is treated as feasible on the regular path (more obligations, never fewer)"]
    chk.assumptions += ["field operators are ring operations on canonical residues (C08/C14); sgn0 is RFC 9380's (C14.R2); "
                        "expand_message_xmd / hash_to_field (C15); cofactor clearing and subgroup landing (C17)"]
    chk.depends_on += ["C08", "C14", "C15", "C17", "C07"]
    w = World(repo)
    it0 = Interp(w)
    cm = repo.module(CONS)
    F1, F2 = PrimeField(Q), ExtField(Q, (1, 0))
    g = lambda n: it0.eval_global(cm, n)
    # ---- R5 constants
    A1, B1, Z1 = (k_of(F1, g(n)) for n in ("ISO_11_A", "ISO_11_B", "ISO_11_Z"))
    A2, B2, Z2 = (k_of(F2, g(n)) for n in ("ISO_3_A", "ISO_3_B", "ISO_3_Z"))
    chk.ob("C10.R5", f"{CONS}.ISO_11_*", "A', B', Z of BLS12381G1_XMD:SHA-256_SSWU_RO_", (A1, B1, Z1) == (RFC_G1["A"], RFC_G1["B"], RFC_G1["Z"]),
           "", cm.relpath)
    chk.ob("C10.R5", f"{CONS}.ISO_3_*", "A', B', Z of BLS12381G2_XMD:SHA-256_SSWU_RO_", (A2, B2, Z2) == (RFC_G2["A"], RFC_G2["B"], RFC_G2["Z"]),
           "", cm.relpath)
    nonsq = F1.pow(Z1, (Q - 1) // 2) != 1 and F2.pow(Z2, (Q * Q - 1) // 2) != F2.one()
    chk.ob("C10.R5", f"{CONS}.ISO_*_Z", "Z is a non-square in its field (exactly one of g(x1), g(x2) is a square)", nonsq, "", cm.relpath)
    chk.ob("C10.R5", f"{CONS}.P_MINUS_*", "P_MINUS_3_DIV_4 = (p−3)/4, P_MINUS_9_DIV_16 = (p²−9)/16",
           g("P_MINUS_3_DIV_4") == (Q - 3) // 4 and g("P_MINUS_9_DIV_16") == (Q * Q - 9) // 16 and Q % 4 == 3 and (Q * Q) % 16 == 9, "", cm.relpath)
    # ---- R2/R3
    trials2 = [(1, 1), (2, 1), (1, 2), (3, 1), (1, 3), (5, 2)]
    trials1 = [2, 3, 5, 7, 11, 13]
    s1 = analyse_sqrt(chk, w, repo.func(f"{SWUM}.sqrt_division_FQ"), F1, Q - 1, trials1, "G1")
    s2 = analyse_sqrt(chk, w, repo.func(f"{SWUM}.sqrt_division_FQ2"), F2, Q * Q - 1, trials2, "G2")
    npaths = 0
    if s1:
        npaths += analyse_swu(chk, repo, w, repo.func(f"{SWUM}.optimized_swu_G1"), repo.func(f"{SWUM}.sqrt_division_FQ"),
                              F1, A1, B1, Z1, s1, "G1", Q - 1)
    if s2:
        npaths += analyse_swu(chk, repo, w, repo.func(f"{SWUM}.optimized_swu_G2"), repo.func(f"{SWUM}.sqrt_division_FQ2"),
                              F2, A2, B2, Z2, s2, "G2", Q * Q - 1)
    # ---- R4
    ocm = repo.module(OC)
    b1 = k_of(F1, it0.eval_global(ocm, "b"))
    b2 = k_of(F2, it0.eval_global(ocm, "b2"))
    analyse_iso(chk, repo, w, repo.func(f"{SWUM}.iso_map_G1"), g("ISO_11_MAP_COEFFICIENTS"), F1, A1, B1, b1, "ISO_11", (11, 10, 15, 15))
    analyse_iso(chk, repo, w, repo.func(f"{SWUM}.iso_map_G2"), g("ISO_3_MAP_COEFFICIENTS"), F2, A2, B2, b2, "ISO_3", (3, 2, 3, 3))
    # ---- R1
    pipeline(chk, repo, w)
    # the pipeline's first stage (expand_message_xmd / hash_to_field, C15) and the sign function (sgn0, C14.R2) are part of what
    # hash_to_G1/G2 compute: their obligations are re-stated here so that a change there is reported for this property as well
    from . import C15, C14
    from ..report import SubCheck
    sub = SubCheck()
    err = None
    try:
        C15.run(sub, repo, tier)
    except AnalysisError as e:        # obligations recorded before the analysis stopped are still re-stated
        err = e
    for rule, construct, key, ok, detail, where in sub.obs:
        chk.ob("C10.R1", construct, f"hash_to_field stage [{rule}] {key}", ok, detail, where)
    if err is not None and all(o[3] for o in sub.obs):
        raise err
    sub = SubCheck()
    C14.sgn0_obligations(sub, repo, World(repo))
    for rule, construct, key, ok, detail, where in sub.obs:
        chk.ob("C10.R3", construct, f"sgn0 [{rule}] {key}", ok, detail, where)
    # the map is evaluated as ring arithmetic with exact == 0 tests: that is what C08 establishes for the two field classes it runs
    # on (canonical storage, operators, equality) — re-stated for optimized_bls12_381_FQ / FQ2
    from ..fieldcheck import FieldSubject, run_fq, run_fqp
    for q in ("py_ecc.fields.optimized_bls12_381_FQ", "py_ecc.fields.optimized_bls12_381_FQ2"):
        S = FieldSubject(w, repo.cls(q))
        for key, ok, det, where in (run_fq(S) if S.kind == "FQ" else run_fqp(S)):
            chk.ob("C10.R6", q, f"[C08] {key}", ok, det, where)
    chk.note_analysed(swu_paths=npaths)


MANIFEST = {
    "level": "other",
    "technique": "static analysis: abstract interpretation of the SWU / isogeny code in exact polynomial domains (K[t] with "
                 "gcd-decided path conditions, a Laurent ring with a root-of-unity case split for the large powers, multivariate "
                 "polynomials for the Horner loops); term comparison of the pipeline; constant folding and validation",
    "text": "Decides for every field element t (all control paths: exceptional case, each candidate-root branch, both sign branches) "
            "that map_to_curve's SWU step returns the RFC 9380 x-candidate selected by squareness of g(x1), on the isogenous curve, "
            "with sgn0(y) = sgn0(t), that the 'unreachable' failure arm is infeasible, that the isogeny code evaluates the tabulated "
            "rational maps and those maps send E' to E, that the suite constants are the RFC's, and that hash_to_G1/G2 compose "
            "hash_to_field, map, add and cofactor clearing as the RFC says. Fermat's little theorem is the one axiom used for the "
            "large powers; expand_message_xmd/hash_to_field, sgn0, the group law and cofactor/subgroup facts are C15, C14, C07/C13, C17.",
    "note": "Not decided: coefficient-by-coefficient agreement of the isogeny tables with RFC Appendix E (only that they are isogenies "
            "E' → E of the right degree).",
}
