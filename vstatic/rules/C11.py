"""C11 — point (de)serialisation is a canonical bijection in the ZCash format.

R1  decoder decision tables over the predicate abstraction (flags x digit classes)
R2  sign selection (half-bit) in decoder and encoder, and the FQ2 square root
R3  encoder digit forms, encoder/decoder agreement, byte helpers
"""
from __future__ import annotations

from ..term import AnalysisError, AbstractValue, Term, var, show, is_sym, atom_of, t_arith
from ..interp import World, Interp, enumerate_paths, _hashable, ExcValue
from ..fieldmodel import FieldVal, field_kind
from ..digits import Word, IntervalDomain, linform
from ..nt import ExtField, is_prime
from ..spec.params import BLS

PC = "py_ecc.bls.point_compression"
G2P = "py_ecc.bls.g2_primitives"
OC = "py_ecc.optimized_bls12_381.optimized_curve"
Q = BLS["p"]
T381 = 1 << 381


# ---------------------------------------------------------------------------
# symbolic field values used while walking the decoders / encoders
# ---------------------------------------------------------------------------
class SymFQ(AbstractValue):
    """optimized FQ built from a symbolic integer: FQ(n)"""
    sort = "field"
    __slots__ = ("n",)

    def __init__(self, n):
        self.n = n

    def v_getattr(self, name, it):
        if name == "n":
            return self.n
        raise AnalysisError(f"attribute {name} of symbolic FQ")

    def v_int(self, it):
        return self.n

    def key(self):
        return ("FQ", _hashable(self.n))

    def __repr__(self):
        return f"FQ({show(self.n)})"

    def __deepcopy__(self, memo):
        return self


class SymFQ2(AbstractValue):
    """optimized FQ2 with integer-term coefficients (re, im); arithmetic is opaque"""
    sort = "field"
    __slots__ = ("re", "im")

    def __init__(self, re, im):
        self.re, self.im = re, im

    def v_getattr(self, name, it):
        if name == "coeffs":
            return (self.re, self.im)
        raise AnalysisError(f"attribute {name} of symbolic FQ2")

    def key(self):
        return ("FQ2", _hashable(self.re), _hashable(self.im))

    def as_term(self):
        return Term("FQ2", (_hashable(self.re), _hashable(self.im)), "field")

    def v_binop(self, op, other, reflected, it):
        if op == "mul" and not reflected and isinstance(other, int) and other == -1:
            return -self
        o = other.as_term() if isinstance(other, SymFQ2) else _hashable(other)
        a, b = (o, self.as_term()) if reflected else (self.as_term(), o)
        return Term("f" + op, (a, b), "field")

    def __neg__(self):
        return SymFQ2(negc(self.re), negc(self.im))

    def v_compare(self, op, other, it):
        raise AnalysisError("comparison of symbolic FQ2 values")

    def __repr__(self):
        return f"FQ2([{show(self.re)}, {show(self.im)}])"

    def __deepcopy__(self, memo):
        return self


def negc(c):
    """coefficient of the negated element: (-c) mod q"""
    if isinstance(c, Term) and c.op == "negmod":
        return c.args[0]
    if isinstance(c, int):
        return (-c) % Q
    return Term("negmod", (c,), "int")


def field_hook(it, cls, args, kwargs):
    """FQ(n) / FQ2([re, im]) / FQ2((re, im)) with symbolic integers"""
    k = field_kind(cls, it.repo)
    if k is None or kwargs:
        return NotImplemented
    kind, opt = k
    if not opt:
        return NotImplemented
    if kind == "FQ" and len(args) == 1 and (is_sym(args[0])):
        a = args[0]
        if isinstance(a, SymFQ):
            return a
        if isinstance(a, Word):
            a = a.as_term()
        return SymFQ(a)
    if kind == "FQP" and len(args) == 1 and isinstance(args[0], (list, tuple)) and len(args[0]) == 2 \
            and any(is_sym(c) for c in args[0]):
        re, im = args[0]
        return SymFQ2(re, im)
    return NotImplemented


def opaque(op, sort, log=None):
    def s(it, f, args, kwargs, node):
        t = Term(op, tuple(_key(a) for a in args), sort)
        if log is not None:
            log.append((t, list(args)))
        return t
    return s


def _key(a):
    if isinstance(a, (SymFQ, SymFQ2)):
        return a.key()
    if isinstance(a, (tuple, list)):
        return tuple(_key(x) for x in a)
    return _hashable(a)


# ---------------------------------------------------------------------------
# the ZCash table (oracle side)
# ---------------------------------------------------------------------------
XCLASSES = ("zero", "mid", "high")           # 0 ; [1, q-1] ; [q, 2^381 - 1]
Z2CLASSES = ("zero", "mid", "high")          # 0 ; [1, q-1] ; [q, 2^384 - 1]  (any flag bit in the second word is in 'high')


def zcash_expect(c, b, a, xcls, z2cls, curve_x0_on):
    """-> 'reject' | 'infinity' | 'finite' (accept iff the x-coordinate has a y on the curve)
    curve_x0_on: whether x = 0 is the abscissa of a curve point (oracle fact about b resp. b2)."""
    if not c:
        return "reject"
    coords_zero = xcls == "zero" and z2cls in (None, "zero")
    if b:
        return "infinity" if (not a and coords_zero) else "reject"
    if xcls == "high" or z2cls == "high":
        return "reject"
    if coords_zero:
        return "finite" if curve_x0_on else "reject"
    return "finite"


def word_for(c, b, a, xcls, name, xvar):
    lo = 0 if xcls == "zero" else xvar
    return Word(4 * c + 2 * b + a, lo, name)


def bounds_for(cls, hi_top):
    return {"mid": (1, Q - 1), "high": (Q, hi_top)}[cls]


# ---------------------------------------------------------------------------
def halfbit_atom(y):
    """the term (y * 2) // q"""
    return t_arith("floordiv", t_arith("mul", y, 2), Q)


HALF = (Q + 1) // 2          # half-bit(y) = 1  ⇔  y ≥ (q+1)/2   (0 ≤ y < q, q odd)


def _lin_in(t, y):
    """t = k·y + m with integer k, m (y a term) or None"""
    c, m = linform(t)
    rest = {a: v for a, v in m.items() if a is not y}
    if rest:
        return None
    return m.get(y, 0), c


def hb_known(facts, y):
    """value of the half-bit of y (0 ≤ y < q) forced by the path facts, or None.  Understood forms: (2y)//q ==/!= c;
    any strict / non-strict comparison between two integer-linear expressions in y (2y > q, y > (q−1)//2, y ≥ (q+1)//2 …)"""
    lo, hi = 0, Q - 1
    fd = halfbit_atom(y)
    for atom, truth, *_ in facts:
        if not isinstance(atom, Term):
            continue
        if atom.op == "eq":
            a, b = atom.args
            for u, c in ((a, b), (b, a)):
                if u is fd and isinstance(c, int) and c in (0, 1):
                    one = (c == 1) == truth
                    if one:
                        lo = max(lo, HALF)
                    else:
                        hi = min(hi, HALF - 1)
        elif atom.op == "lt":
            a, b = atom.args
            la, lb = _lin_in(a, y), _lin_in(b, y)
            if la is None or lb is None:
                continue
            k, m = la[0] - lb[0], la[1] - lb[1]          # k·y + m < 0  (truth)  /  >= 0 (not truth)
            if k == 0:
                continue
            if not truth:
                k, m = -k, -m - 1                        # -(k y + m) <= 0  ⇔  -k y - m - 1 < 0
            # k·y + m < 0
            if k > 0:                                    # y < -m/k  ⇔  y <= ceil(-m/k) - 1
                hi = min(hi, -((m) // k) - 1 if (-m) % k == 0 else (-m) // k)
            else:                                        # y > m/(-k)  ⇔  y >= floor(m/(-k)) + 1
                lo = max(lo, m // (-k) + 1)
    if lo >= HALF:
        return 1
    if hi <= HALF - 1:
        return 0
    return None


def poly_q(t, atoms):
    """integer term -> polynomial over Z/q; x is the variable 'x'; large modular powers are atoms (recorded in `atoms`)"""
    from ..poly import Poly
    if isinstance(t, bool):
        t = int(t)
    if isinstance(t, int):
        return Poly.const(t, Q)
    if isinstance(t, Term):
        if t.op == "var":
            return Poly.var(t.args[0], Q)
        if t.op in ("add", "sub", "mul"):
            a, b = poly_q(t.args[0], atoms), poly_q(t.args[1], atoms)
            return a + b if t.op == "add" else a - b if t.op == "sub" else a * b
        if t.op == "mod" and t.args[1] == Q:
            return poly_q(t.args[0], atoms)
        if t.op == "pow" and isinstance(t.args[1], int) and 0 <= t.args[1] <= 16:
            return poly_q(t.args[0], atoms) ** t.args[1]
        if t.op == "powmod" and t.args[2] == Q and isinstance(t.args[1], int):
            if 0 <= t.args[1] <= 16:
                return poly_q(t.args[0], atoms) ** t.args[1]
            nm = f"root#{len(atoms)}"
            for k, v in atoms.items():
                if v is t:
                    nm = k
            atoms[nm] = t
            return Poly.var(nm, Q)
    nm = f"atom#{len(atoms)}"
    for k, v in atoms.items():
        if v is t:
            nm = k
    atoms[nm] = t
    from ..poly import Poly as _P
    return _P.var(nm, Q)


def run(chk, repo, tier):
    chk.explanation = ("decompress_G1/G2 are walked by the abstract evaluator on words in mixed-radix digit form "
                       "(three concrete flag bits x a symbolic 381-bit remainder tracked by an interval domain, plus the class of the "
                       "second word for G2); every path's outcome is compared with the ZCash format's table for its cell; accepted "
                       "paths must return the point built from the right digits, carry the on-curve fact for exactly the returned "
                       "coordinates and select the root whose half-bit equals the a flag. The encoders are walked with symbolic "
                       "normalised coordinates and their outputs compared, as linear digit forms, with the format; the byte helpers "
                       "are compared as terms.")
    chk.rule("C11.R1", "decoder decision table: per cell (c, b, a, x-class[, second-word class]) every path rejects with ValueError "
                       "or accepts exactly as the ZCash table says; accepted finite points carry an on-curve fact for the returned "
                       "coordinates; infinity decodes to the module's identity constant", 24 + 72 + 1)
    chk.rule("C11.R2", "sign selection: returned y is ±root with half-bit (of y_im, or y_re when y_im = 0) equal to the a flag; "
                       "FQ2 square root returns only roots and tests all four 4th roots of unity; G1 candidate exponent finds a "
                       "root whenever one exists (Euler)", 4)
    chk.rule("C11.R3", "encoders emit c=1, b=infinity, a=half-bit, x digits with no overlap (< 2^384); decoder reads the digits "
                       "the encoder wrote; byte helpers are 48-byte big-endian words; accepted words re-encode to themselves", 12)
    chk.not_decided += ["Fermat / cyclic-group facts used as axioms: a^(q-1) = 1 in F_q, a^(q^2-1) = 1 in F_q^2 (root-finding completeness)",
                        "that normalize/is_on_curve/is_inf compute what their names say (C13)"]
    chk.assumptions += ["E(F_p) and E'(F_p^2) have odd order (no point with y = 0): checked numerically from the oracle parameters",
                        "optimized FQ/FQ2 store canonical residues (C08.R3), so coefficients are in [0, q-1]"]
    chk.depends_on += ["C08", "C13"]
    w = World(repo)
    it0 = Interp(w)
    m = repo.module(PC)
    def const(name):
        """a module constant the codec uses: from the codec module's namespace, else from py_ecc.bls.constants"""
        for mm in (m, repo.module("py_ecc.bls.constants")):
            if name in mm.bindings:
                return it0.eval_global(mm, name)
        return None
    q = const("q")
    pows = {k: const(f"POW_2_{k}") for k in (381, 382, 383)}
    # the named powers of two that exist must be the powers of two (a codec that spells them differently is decided by the tables)
    consts_ok = q == Q and all(v is None or v == 1 << k for k, v in pows.items())
    chk.ob("C11.R1", PC, "q is the BLS12-381 field prime, POW_2_k = 2^k, q < 2^381", consts_ok and Q < T381, "", m.relpath)
    if not consts_ok:
        return
    b1 = it0.eval_global(m, "b")
    b2 = it0.eval_global(m, "b2")
    Z1 = it0.eval_global(m, "Z1")
    Z2 = it0.eval_global(m, "Z2")
    F2 = ExtField(Q, (1, 0))
    b2v = tuple(b2.v)
    # oracle facts about x = 0
    g1_x0_on = pow(b1.v % Q, (Q - 1) // 2, Q) == 1
    g2_x0_on = F2.pow(b2v, (Q * Q - 1) // 2) == F2.one()
    odd_orders = (BLS["h1"] * BLS["r"]) % 2 == 1 and (BLS["h2"] * BLS["r"]) % 2 == 1
    chk.ob("C11.R2", "oracle", "#E(F_p) = h1·r and #E'(F_p²) = h2·r are odd (no curve point has y = 0, so y and −y differ in the half-bit)",
           odd_orders, "", "vstatic/spec/params.py")
    ok_id = isinstance(Z1, tuple) and len(Z1) == 3 and isinstance(Z1[2], FieldVal) and Z1[2].v == 0 \
        and isinstance(Z2, tuple) and len(Z2) == 3 and isinstance(Z2[2], FieldVal) and all(c == 0 for c in Z2[2].v)
    chk.ob("C11.R1", PC, "Z1 / Z2 are identity representatives (z = 0)", ok_id, "", m.relpath)

    decode_g1(chk, repo, w, g1_x0_on, Z1)
    decode_g2(chk, repo, w, g2_x0_on, Z2, b2)
    sqrt_fq2(chk, repo, w)
    encoders(chk, repo, w)
    byte_helpers(chk, repo, w)
    # the decoders compare and negate field objects (y, -y, the root test): C08's obligations for the two classes they use
    chk.rule("C11.R4", "the field objects the codec builds and compares are canonical: operators of optimized_bls12_381_FQ / FQ2 store "
                       "reduced values and == is exact (C08 re-stated for these two classes)", 30)
    from ..fieldcheck import FieldSubject, run_fq, run_fqp
    for qn in ("py_ecc.fields.optimized_bls12_381_FQ", "py_ecc.fields.optimized_bls12_381_FQ2"):
        S = FieldSubject(w, repo.cls(qn))
        for key, ok, det, where in (run_fq(S) if S.kind == "FQ" else run_fqp(S)):
            chk.ob("C11.R4", qn, f"[C08] {key}", ok, det, where)


# ---------------------------------------------------------------------------
# G1 decoder
# ---------------------------------------------------------------------------
def rhs_g1(x, bn):
    return t_arith("mod", t_arith("add", t_arith("pow", x, 3), bn), Q)


def _is_pow_root(y0, rhs):
    """y0 = powmod(rhs, e, q) with (q-1)/2 | 2e-1  -> e, else None"""
    if isinstance(y0, Term) and y0.op == "powmod" and y0.args[0] is rhs and y0.args[2] == Q and isinstance(y0.args[1], int):
        e = y0.args[1]
        if (2 * e - 1) % ((Q - 1) // 2) == 0:
            return e
    return None


def decode_g1(chk, repo, w, x0_on, Z1):
    f = repo.func(f"{PC}.decompress_G1")
    x = var("x", "int")
    cells = 0
    d3 = []
    for c in (0, 1):
        for b in (0, 1):
            for a in (0, 1):
                for xcls in XCLASSES:
                    cells += 1
                    key = f"cell c={c} b={b} a={a} x={xcls}"
                    want = zcash_expect(c, b, a, xcls, None, x0_on)

                    def run1(it, c=c, b=b, a=a, xcls=xcls):
                        it.domain = IntervalDomain({} if xcls == "zero" else {x: bounds_for(xcls, T381 - 1)})
                        return it.call_func(f, [word_for(c, b, a, xcls, "z", x)], {})
                    paths = enumerate_paths(w, run1, class_hooks=[field_hook])
                    ok, detail = judge_g1(paths, want, a, xcls, x, Z1)
                    if not ok and c == 1 and b == 0 and xcls == "zero" and want == "finite":
                        d3.append((key, detail))       # aggregated below: one construct, both a flags
                        continue
                    chk.ob("C11.R1", f.qualname, key, ok, detail, f.where)
    if d3:
        chk.ob("C11.R1", f.qualname, "cell c=1 b=0 x=0 curve=on (the points (0, ±2))", False,
               "expected: decodes to (0, ±2) [x³+4 = 4 is a square]; " + d3[0][1], f.where)
    else:
        chk.ob("C11.R1", f.qualname, "cell c=1 b=0 x=0 curve=on (the points (0, ±2))", True, "", f.where)
    chk.note_analysed(g1_cells=cells)


def judge_g1(paths, want, a, xcls, x, Z1):
    rets = [p for p in paths if p.outcome == "return"]
    raises = [p for p in paths if p.outcome == "raise"]
    for p in raises:
        if p.value.clsname() != "builtins.ValueError":
            return False, f"rejects with {p.value.clsname()} at {p.value.where}, not ValueError"
    if want == "reject":
        if rets:
            return False, f"format rejects this cell; path {rets[0].branch_lines()} returns {show(_key(rets[0].value))[:120]}"
        return True, f"{len(raises)} rejecting path(s)"
    if want == "infinity":
        if raises or len(rets) != 1:
            return False, f"format decodes this cell to infinity; {len(raises)} rejecting path(s): " + \
                "; ".join(str(p.value.args[:1]) + " at " + str(p.value.where) for p in raises[:2])
        v = rets[0].value
        return (v is Z1 or v == Z1), f"returns {show(_key(v))[:100]}"
    # finite: accept iff x has a y on the curve
    xv = 0 if xcls == "zero" else x
    if not rets:
        return False, "format accepts x-coordinates of curve points in this cell; every path rejects: " + \
            "; ".join(f"{p.value.args[:1]} at {p.value.where}" for p in raises[:2])
    for p in raises:
        if not any(_root_fact(fa, tr, xv) is False for fa, tr, _ in p.facts):
            return False, f"rejection at {p.value.where} {p.value.args[:1]} is not justified by a failed root test (path {p.branch_lines()})"
    for p in rets:
        v = p.value
        if not (isinstance(v, tuple) and len(v) == 3):
            return False, f"returns {show(_key(v))[:100]}"
        X, Y, Zc = v
        if not (isinstance(Zc, FieldVal) and Zc.kind == "FQ" and Zc.v == 1):
            return False, f"z coordinate {Zc!r} is not FQ(1)"
        if not (isinstance(X, SymFQ) and X.n is xv) and not (isinstance(X, FieldVal) and X.v == xv):
            return False, f"x coordinate {X!r} is not FQ(z mod 2^381)"
        roots = [fa for fa, tr, _ in p.facts if _root_fact(fa, tr, xv) is True]
        if not roots:
            return False, f"accepting path {p.branch_lines()} has no successful root test y0² ≡ x³ + b"
        y0 = _root_of(roots[0], xv)
        yn = Y.n if isinstance(Y, SymFQ) else None
        lf = _lin_in(yn, y0) if yn is not None else None
        if lf == (1, 0):
            flipped = False
        elif lf == (-1, Q):
            flipped = True
        else:
            return False, f"y coordinate {Y!r} is neither the tested root nor q − root"
        h0 = hb_known(p.facts, y0)
        if h0 is None:
            return False, f"path {p.branch_lines()} does not determine the root's half-bit (2y ≥ q) before selecting the sign"
        # half-bit of q − y0 is 1 − half-bit(y0) for 0 < y0 < q
        hY = 1 - h0 if flipped else h0
        if hY != a:
            return False, f"path {p.branch_lines()}: returned y has half-bit {hY}, a flag is {a} (root half-bit {h0}, negated={flipped})"
    return True, f"{len(rets)} accepting / {len(raises)} rejecting path(s)"


def _root_fact(atom, truth, xv, bn=4):
    """is (atom, truth) the fact  y0² ≡ x³ + b (mod q)  for a candidate y0 that finds every root?
    -> True (root test passed) / False (failed) / None (another fact).  Compared as polynomials over Z/q."""
    return _root_info(atom, truth, xv, bn)[0]


def _root_info(atom, truth, xv, bn=4):
    from ..poly import Poly
    if not (isinstance(atom, Term) and atom.op == "eq"):
        return None, None
    atoms = {}
    try:
        d = poly_q(atom.args[0], atoms) - poly_q(atom.args[1], atoms)
    except AnalysisError:
        return None, None
    X = poly_q(xv, atoms)
    g = X ** 3 + Poly.const(bn, Q)
    for nm, t in atoms.items():
        if not nm.startswith("root#"):
            continue
        Y = Poly.var(nm, Q)
        want = Y * Y - g
        if (d - want).is_zero() or (d + want).is_zero():
            # the candidate must be g^e with (q−1)/2 | 2e−1 (Euler: a root is found whenever one exists)
            base, e, _m = t.args
            if (poly_q(base, dict(atoms)) - g).is_zero() and (2 * e - 1) % ((Q - 1) // 2) == 0:
                return truth, t
    if not atoms and not is_sym(xv):
        return None, None
    return None, None


def _root_of(atom, xv):
    return _root_info(atom, True, xv)[1]


# ---------------------------------------------------------------------------
# G2 decoder
# ---------------------------------------------------------------------------
class SqrtResult(SymFQ2):
    pass


def decode_g2(chk, repo, w, x0_on, Z2, b2):
    f = repo.func(f"{PC}.decompress_G2")
    x1 = var("x1", "int")
    z2v = var("z2", "int")
    yre, yim = var("y0_re", "int"), var("y0_im", "int")
    sq = repo.func(f"{PC}.modular_squareroot_in_FQ2")
    m = repo.module(PC)
    onc = repo.resolve_binding(m, "is_on_curve")
    if not repo.is_func(onc, f"{OC}.is_on_curve"):
        raise AnalysisError("point_compression.is_on_curve does not resolve to the optimized BLS12-381 curve module")
    cells = 0
    for c in (0, 1):
        for b in (0, 1):
            for a in (0, 1):
                for xcls in XCLASSES:
                    for zcls in Z2CLASSES:
                        cells += 1
                        key = f"cell c={c} b={b} a={a} x_im={xcls} z2={zcls}"
                        want = zcash_expect(c, b, a, xcls, zcls, x0_on)
                        sqlog, oclog = [], []

                        def sqrt_summary(it, fn, args, kwargs, node, sqlog=sqlog):
                            t = Term("sqrt_fq2", (_key(args[0]),), "optional")
                            sqlog.append(args[0])
                            if it.truth(Term("isnone", (t,), "bool"), node):
                                return None
                            return SqrtResult(yre, yim)

                        def run1(it, c=c, b=b, a=a, xcls=xcls, zcls=zcls):
                            bounds = {yre: (0, Q - 1), yim: (0, Q - 1)}
                            if xcls != "zero":
                                bounds[x1] = bounds_for(xcls, T381 - 1)
                            if zcls != "zero":
                                bounds[z2v] = bounds_for(zcls, (1 << 384) - 1)
                            it.domain = IntervalDomain(bounds)
                            zz = 0 if zcls == "zero" else z2v
                            return it.call_func(f, [(word_for(c, b, a, xcls, "z1", x1), zz)], {})
                        paths = enumerate_paths(w, run1, class_hooks=[field_hook],
                                                summaries={sq.qualname: sqrt_summary, onc[1].qualname: opaque("is_on_curve", "bool", oclog)})
                        ok, detail = judge_g2(paths, want, a, xcls, zcls, x1, z2v, yre, yim, Z2, b2)
                        chk.ob("C11.R1", f.qualname, key, ok, detail, f.where)
    chk.note_analysed(g2_cells=cells)


def fpoly(t, X):
    """field term over the symbolic x (an FQ2) and F_p² constants -> polynomial in X, I over Z/q with I² = −1"""
    from ..poly import Poly, reduce_by
    I2 = [("I", 2, Poly.const(-1, Q))]

    def go(u):
        if isinstance(u, bool):
            u = int(u)
        if isinstance(u, int):
            return Poly.const(u, Q)
        if isinstance(u, SymFQ2):
            u = u.as_term()
        if u is X.as_term() or u == X.as_term():
            return Poly.var("X", Q)
        if isinstance(u, FieldVal):
            if u.kind == "FQ":
                return Poly.const(u.v, Q)
            if len(u.v) == 2:
                return Poly.const(u.v[0], Q) + Poly.const(u.v[1], Q) * Poly.var("I", Q)
        if isinstance(u, tuple) and len(u) == 3 and u[0] == "FQ2":
            raise AnalysisError("square-root argument mentions another symbolic FQ2 value")
        if isinstance(u, Term):
            if u.op == "fieldval":
                v = u.args[1]
                if isinstance(v, int):
                    return Poly.const(v, Q)
                if isinstance(v, tuple) and len(v) == 2:
                    return Poly.const(v[0], Q) + Poly.const(v[1], Q) * Poly.var("I", Q)
            if u.op in ("fadd", "fsub", "fmul"):
                a, b = go(u.args[0]), go(u.args[1])
                r = a + b if u.op == "fadd" else a - b if u.op == "fsub" else a * b
                return reduce_by(r, I2)
            if u.op == "fpow" and isinstance(u.args[1], int) and 0 <= u.args[1] <= 16:
                return reduce_by(go(u.args[0]) ** u.args[1], I2)
            if u.op == "neg":
                return Poly.const(0, Q) - go(u.args[0])
        raise AnalysisError(f"square-root argument outside the polynomial fragment: {show(u)[:100]}")
    return go(t)


def _onc_fact(atom, truth):
    if isinstance(atom, Term) and atom.op == "is_on_curve":
        return truth
    return None


def judge_g2(paths, want, a, xcls, zcls, x1, z2v, yre, yim, Z2, b2):
    rets = [p for p in paths if p.outcome == "return"]
    raises = [p for p in paths if p.outcome == "raise"]
    for p in raises:
        if p.value.clsname() != "builtins.ValueError":
            return False, f"rejects with {p.value.clsname()} at {p.value.where}, not ValueError"
    if want == "reject":
        if rets:
            return False, f"format rejects this cell; path {rets[0].branch_lines()} returns {show(_key(rets[0].value))[:120]}"
        return True, f"{len(raises)} rejecting path(s)"
    if want == "infinity":
        if raises or len(rets) != 1:
            return False, f"format decodes this cell to infinity; {len(raises)} rejecting path(s): " + \
                "; ".join(str(p.value.args[:1]) + " at " + str(p.value.where) for p in raises[:2])
        v = rets[0].value
        return (v is Z2 or v == Z2), f"returns {show(_key(v))[:100]}"
    xim = 0 if xcls == "zero" else x1
    xre = 0 if zcls == "zero" else z2v
    if not rets:
        return False, "format accepts x-coordinates of curve points in this cell; every path rejects: " + \
            "; ".join(f"{p.value.args[:1]} at {p.value.where}" for p in raises[:2])
    for p in raises:
        just = False
        for fa, tr, _ in p.facts:
            if isinstance(fa, Term) and fa.op == "isnone" and isinstance(fa.args[0], Term) and fa.args[0].op == "sqrt_fq2" and tr:
                just = True
            if _onc_fact(fa, tr) is False:
                just = True
        if not just:
            return False, f"rejection at {p.value.where} {p.value.args[:1]} is not justified by 'no square root' or 'not on curve' (path {p.branch_lines()})"
    for p in rets:
        v = p.value
        if not (isinstance(v, tuple) and len(v) == 3):
            return False, f"returns {show(_key(v))[:100]}"
        X, Y, Zc = v
        if not (isinstance(Zc, FieldVal) and Zc.kind == "FQP" and tuple(Zc.v) == (1, 0)):
            return False, f"z coordinate {Zc!r} is not FQ2 one"
        if not (isinstance(X, SymFQ2) and X.re is xre and X.im is xim or
                (isinstance(X, SymFQ2) and X.re == xre and X.im == xim)):
            return False, f"x coordinate {X!r} is not FQ2([z2, z1 mod 2^381]) (real part from the second word, imaginary from the first)"
        # completeness: the square root is taken of x³ + b2 for this x (compared as polynomials over F_p[i])
        sq_args = [fa.args[0].args[0] for fa, tr, _ in p.facts
                   if isinstance(fa, Term) and fa.op == "isnone" and isinstance(fa.args[0], Term) and fa.args[0].op == "sqrt_fq2" and not tr]
        want_poly = fpoly(Term("fadd", (Term("fpow", (X.as_term(), 3), "field"), _hashable(b2)), "field"), X)
        root_ok = any(fpoly(sa, X) == want_poly for sa in sq_args)
        if not root_ok:
            return False, f"accepting path {p.branch_lines()}: y is not taken as a square root of x³ + b2 (argument(s): {[show(a)[:80] for a in sq_args]})"
        if not isinstance(Y, SymFQ2):
            return False, f"y coordinate {Y!r}"
        if Y.re is yre and Y.im is yim:
            flipped = False
        elif Y.re is negc(yre) and Y.im is negc(yim):
            flipped = True
        else:
            return False, f"y coordinate {Y!r} is neither the root nor its negation"
        # which coefficient carries the sign on this path?
        dom = p.interp.domain
        lo, hi, _h = dom.interval(yim)
        if lo >= 1:
            h0 = hb_known(p.facts, yim)
            which = "y_im"
        elif hi == 0:
            h0 = hb_known(p.facts, yre)
            which = "y_re (y_im = 0)"
        else:
            return False, f"path {p.branch_lines()} does not distinguish y_im > 0 from y_im = 0 before selecting the sign"
        if h0 is None:
            return False, f"path {p.branch_lines()} does not determine the half-bit of {which} before selecting the sign"
        hY = 1 - h0 if flipped else h0          # negation flips the half-bit of the deciding (non-zero) coefficient
        if hY != a:
            return False, f"path {p.branch_lines()}: returned y has sign bit {hY} (from {which}), a flag is {a} (negated={flipped})"
    return True, f"{len(rets)} accepting / {len(raises)} rejecting path(s)"


# ---------------------------------------------------------------------------
# modular_squareroot_in_FQ2 in a monomial domain
# ---------------------------------------------------------------------------
class Mono(AbstractValue):
    """k · c^ec · v^ev  with k a concrete F_p² constant, v the argument, c the candidate v^e"""
    sort = "field"
    __slots__ = ("k", "ec", "ev", "st")

    def __init__(self, k, ec, ev, st):
        self.k, self.ec, self.ev, self.st = k, ec, ev, st

    def norm(self):
        k, ec, ev = self.k, self.ec, self.ev
        R = self.st.get("rule")
        if R is not None and (ec >= 2 or ec < 0):
            n = ec // 2
            ec -= 2 * n
            ev += n
            F = self.st["F"]
            k = F.mul(k, F.pow(R, n) if n >= 0 else F.inv(F.pow(R, -n)))
        return k, ec, ev

    def _lift(self, o):
        F = self.st["F"]
        if isinstance(o, Mono):
            return o
        if isinstance(o, FieldVal) and o.kind == "FQP":
            return Mono(tuple(o.v), 0, 0, self.st)
        if isinstance(o, int) and not isinstance(o, bool):
            return Mono(F.el([o % Q, 0]), 0, 0, self.st)
        return None

    def v_binop(self, op, other, reflected, it):
        F = self.st["F"]
        if op == "pow" and not reflected and isinstance(other, int):
            if (self.k, self.ec, self.ev) == (F.one(), 0, 1) and other > 64:
                self.st["exponents"].append(other)
                return Mono(F.one(), 1, 0, self.st)
            if abs(other) <= 64:
                return Mono(F.pow(self.k, other) if other >= 0 else F.inv(F.pow(self.k, -other)), self.ec * other, self.ev * other, self.st)
            raise AnalysisError("large power of a derived value in the square-root routine")
        o = self._lift(other)
        if o is None or op not in ("mul", "truediv"):
            raise AnalysisError(f"operator {op} on square-root monomial with {other!r}")
        a, b = (o, self) if reflected else (self, o)
        if op == "mul":
            return Mono(F.mul(a.k, b.k), a.ec + b.ec, a.ev + b.ev, self.st)
        return Mono(F.mul(a.k, F.inv(b.k)), a.ec - b.ec, a.ev - b.ev, self.st)

    def __neg__(self):
        F = self.st["F"]
        return Mono(F.neg(self.k), self.ec, self.ev, self.st)

    def v_compare(self, op, other, it):
        o = self._lift(other)
        if o is None or op not in ("==", "!="):
            raise AnalysisError(f"comparison {op} of square-root monomial with {other!r}")
        c = MonoCond(self, o)
        return c if op == "==" else c.negate()

    def v_getattr(self, name, it):
        if name == "coeffs":
            k = repr(self.norm())
            return (var(f"re{k}", "int"), var(f"im{k}", "int"))
        raise AnalysisError(f"attribute {name} of square-root monomial")

    def __repr__(self):
        return f"Mono{self.norm()}"

    def __deepcopy__(self, memo):
        return self


class MonoCond(AbstractValue):
    sort = "bool"

    def __init__(self, a, b, eq=True):
        self.a, self.b, self.eq = a, b, eq

    def negate(self):
        return MonoCond(self.a, self.b, not self.eq)

    def decide(self, it):
        ka, ca, va = self.a.norm()
        kb, cb, vb = self.b.norm()
        if (ca, va) == (cb, vb):
            return (ka == kb) == self.eq
        return None

    def assume(self, it, truth):
        if truth != self.eq:
            return
        st = self.a.st
        F = st["F"]
        ka, ca, va = self.a.norm()
        kb, cb, vb = self.b.norm()
        # ka c^ca v^va = kb c^cb v^vb   ->   c^(ca-cb) = (kb/ka) v^(vb-va)
        dc, dv = ca - cb, vb - va
        k = F.mul(kb, F.inv(ka))
        if dc < 0:
            dc, dv, k = -dc, -dv, F.inv(k)
        if dc == 2 and dv == 1 and st.get("rule") is None:
            st["rule"] = k
            st["rule_from"] = it.where()
            return
        raise AnalysisError(f"square-root routine: unsupported equality c^{dc} = k·v^{dv}")


def sqrt_fq2(chk, repo, w):
    f = repo.func(f"{PC}.modular_squareroot_in_FQ2")
    F = ExtField(Q, (1, 0))
    results = []

    def run1(it):
        st = {"F": F, "rule": None, "exponents": []}
        it.sqrt_state = st
        return it.call_func(f, [Mono(F.one(), 0, 1, st)], {})
    paths = enumerate_paths(w, run1)
    tested = []
    bad = []
    nret = 0
    exps = set()
    for p in paths:
        st = p.interp.sqrt_state
        exps.update(st["exponents"])
        if p.outcome == "raise":
            bad.append(f"raises {p.value.clsname()} at {p.value.where}")
            continue
        v = p.value
        if v is None:
            continue
        nret += 1
        if not isinstance(v, Mono):
            bad.append(f"returns {v!r}")
            continue
        k, ec, ev = Mono(F.mul(v.k, v.k), 2 * v.ec, 2 * v.ev, st).norm()
        if (k, ec, ev) != (F.one(), 0, 1):
            bad.append(f"path {p.branch_lines()}: result² = {k}·c^{ec}·v^{ev}, not the argument")
        if st["rule"] is not None and st["rule"] not in tested:
            tested.append(st["rule"])
    chk.ob("C11.R2", f.qualname, "every returned value is a square root of the argument (per tested root of unity)",
           not bad and nret >= 4, "; ".join(bad[:3]) or f"{nret} returning paths over {len(tested)} accepted values of candidate²/value", f.where)
    fourth = all(F.pow(t, 4) == F.one() for t in tested) and len(set(tested)) == 4
    e_ok = len(exps) == 1 and (8 * (2 * next(iter(exps)) - 1)) % (Q * Q - 1) == 0
    chk.ob("C11.R2", f.qualname, "candidate = value^e with (q²−1) | 8(2e−1), and candidate²/value is tested against all four 4th roots "
                                 "of unity: a root is found whenever the argument is a square",
           fourth and e_ok, f"accepted values: {len(set(tested))} distinct, all 4th roots: {fourth}; exponent ok: {e_ok}", f.where)
    nonep = [p for p in paths if p.outcome == "return" and p.value is None]
    chk.ob("C11.R2", f.qualname, "returns None only when candidate²/value is none of the accepted roots of unity",
           len(nonep) == 1 and p_all_false(nonep[0]), f"{len(nonep)} path(s) returning None", f.where)


def p_all_false(p):
    return all(not c for c, _ in p.decisions)


# ---------------------------------------------------------------------------
# encoders
# ---------------------------------------------------------------------------
def encoders(chk, repo, w):
    m = repo.module(PC)
    inf = repo.resolve_binding(m, "is_inf")
    nrm = repo.resolve_binding(m, "normalize")
    onc = repo.resolve_binding(m, "is_on_curve")
    for nm, r in (("is_inf", inf), ("normalize", nrm), ("is_on_curve", onc)):
        if not repo.is_func(r, f"{OC}.{nm}"):
            raise AnalysisError(f"point_compression.{nm} does not resolve to the optimized BLS12-381 curve module")
    pt = var("pt", "point")
    # ---- G1
    f = repo.func(f"{PC}.compress_G1")
    xn, yn = var("x_n", "int"), var("y_n", "int")

    def norm_g1(it, fn, args, kwargs, node):
        if args[0] is not pt:
            raise AnalysisError("normalize applied to something else than the argument")
        return (SymFQ(xn), SymFQ(yn))

    def run1(it):
        it.domain = IntervalDomain({xn: (0, Q - 1), yn: (0, Q - 1)})
        return it.call_func(f, [pt], {})
    paths = enumerate_paths(w, run1, class_hooks=[field_hook],
                            summaries={inf[1].qualname: opaque("is_inf", "bool"), nrm[1].qualname: norm_g1})
    nfin1 = 0
    for p in paths:
        isinf = _fact(p, "is_inf")
        if p.outcome != "return" or isinf is None:
            chk.ob("C11.R3", f.qualname, f"path {p.branch_lines()}", False, f"outcome {p.outcome} {p.value!r}", f.where)
            continue
        c0, lin = linform(p.value)
        if isinf:
            chk.ob("C11.R3", f.qualname, "infinity ↦ c=1, b=1, a=0, x=0", (c0, lin) == ((1 << 383) + (1 << 382), {}),
                   f"got {show(p.value)[:100]}", f.where)
        else:
            nfin1 += 1
            ok = _enc_word_ok(c0, lin, xn, yn, p.facts)
            chk.ob("C11.R3", f.qualname, f"finite [{' '.join(p.branch_lines()) or 'straight'}] ↦ 2^383 + half-bit(y)·2^381 + x  "
                                         "(digits c=1, b=0, a = [2y ≥ q], x < q < 2^381: no overlap)",
                   ok, f"got {show(p.value)[:160]}", f.where)
    chk.ob("C11.R3", f.qualname, "one infinity path, finite path(s)", len(paths) - nfin1 == 1 and nfin1 >= 1, f"{len(paths)} paths", f.where)
    # ---- G2
    f2 = repo.func(f"{PC}.compress_G2")
    xre, xim, yre, yim = (var(n, "int") for n in ("x_re", "x_im", "y_re", "y_im"))

    def norm_g2(it, fn, args, kwargs, node):
        if args[0] is not pt:
            raise AnalysisError("normalize applied to something else than the argument")
        return (SymFQ2(xre, xim), SymFQ2(yre, yim))

    def run2(it):
        it.domain = IntervalDomain({v: (0, Q - 1) for v in (xre, xim, yre, yim)})
        return it.call_func(f2, [pt], {})
    paths = enumerate_paths(w, run2, class_hooks=[field_hook],
                            summaries={inf[1].qualname: opaque("is_inf", "bool"), nrm[1].qualname: norm_g2,
                                       onc[1].qualname: opaque("is_on_curve", "bool")})
    nfin = 0
    seen_im = seen_re = False
    for p in paths:
        onc_t = _fact(p, "is_on_curve")
        if p.outcome == "raise":
            ok = onc_t is False and p.value.clsname() == "builtins.ValueError"
            chk.ob("C11.R3", f2.qualname, "refuses only off-curve input, with ValueError", ok,
                   f"{p.value.clsname()} at {p.value.where} on path {p.branch_lines()}", f2.where)
            continue
        isinf = _fact(p, "is_inf")
        v = p.value
        if not (isinstance(v, tuple) and len(v) == 2) or isinf is None:
            chk.ob("C11.R3", f2.qualname, f"path {p.branch_lines()}", False, f"returns {show(_key(v))[:100]}", f2.where)
            continue
        c1, l1 = linform(v[0])
        c2, l2 = linform(v[1])
        if isinf:
            chk.ob("C11.R3", f2.qualname, "infinity ↦ (2^383 + 2^382, 0)", (c1, l1, c2, l2) == ((1 << 383) + (1 << 382), {}, 0, {}),
                   f"got {show(_key(v))[:100]}", f2.where)
            continue
        nfin += 1
        lo, hi, _h = p.interp.domain.interval(yim)
        carrier = yim if lo >= 1 else yre if hi == 0 else None
        if carrier is yim:
            seen_im = True
        elif carrier is yre:
            seen_re = True
        ok = carrier is not None and _enc_word_ok(c1, l1, xim, carrier, p.facts) and c2 == 0 and l2 == {xre: 1}
        chk.ob("C11.R3", f2.qualname, f"finite [{' '.join(p.branch_lines())}], {'y_im > 0' if carrier is yim else 'y_im = 0'} ↦ "
                                      "z1 = 2^383 + half-bit·2^381 + x_im, z2 = x_re (sign from y_im, or y_re when y_im = 0)",
               ok, f"got z1 = {show(v[0])[:140]}, z2 = {show(v[1])[:40]}", f2.where)
    chk.ob("C11.R3", f2.qualname, "finite paths split on y_im > 0 / y_im = 0", seen_im and seen_re, f"{nfin} finite paths", f2.where)


def _enc_word_ok(c0, lin, xatom, yatom, facts):
    """first word = 2^383 + a·2^381 + x with a the half-bit of y: either as the term (2y)//q, or as a constant forced by the path"""
    if c0 == 1 << 383 and lin == {xatom: 1, halfbit_atom(yatom): T381}:
        return True
    if lin == {xatom: 1} and c0 in (1 << 383, (1 << 383) + T381):
        a = 1 if c0 != 1 << 383 else 0
        return hb_known(facts, yatom) == a
    return False


def _fact(p, op):
    for fa, tr, _ in p.facts:
        if isinstance(fa, Term) and fa.op == op:
            return tr
    return None


# ---------------------------------------------------------------------------
# byte helpers
# ---------------------------------------------------------------------------
def byte_helpers(chk, repo, w, rule="C11.R3"):
    for nm, user in (("compress_G1", "G1_to_pubkey"), ("compress_G2", "G2_to_signature"), ("decompress_G1", "pubkey_to_G1"),
                     ("decompress_G2", "signature_to_G2")):
        m = repo.func(f"{G2P}.{user}").module          # the module that defines the byte helper (it may be re-exported by G2P)
        r = repo.resolve_binding(m, nm)
        if not repo.is_func(r, f"{PC}.{nm}"):
            raise AnalysisError(f"{m.name}.{nm} (used by {user}) does not resolve to point_compression")
    def cg2(it, fn, args, kwargs, node):
        cz = Term("compress_G2", (_key(args[0]),), "any")
        return (Term("item", (cz, 0), "int"), Term("item", (cz, 1), "int"))
    S = {f"{PC}.compress_G1": opaque("compress_G1", "int"), f"{PC}.compress_G2": cg2,
         f"{PC}.decompress_G1": opaque("decompress_G1", "point"), f"{PC}.decompress_G2": opaque("decompress_G2", "point")}
    it = Interp(w, summaries=S)
    pt = var("pt", "point")
    pk = var("pubkey", "bytes")
    sig = var("signature", "bytes")
    from ..term import t_concat, t_slice
    f = repo.func(f"{G2P}.G1_to_pubkey")
    r = it.call_func(f, [pt], {})
    want = Term("i2osp", (Term("compress_G1", (pt,), "int"), 48), "bytes")
    chk.ob(rule, f.qualname, "I2OSP(compress_G1(pt), 48)  (word < 2^384, so the conversion cannot overflow)", r is want, f"got {show(r)[:120]}", f.where)
    f = repo.func(f"{G2P}.pubkey_to_G1")
    r = it.call_func(f, [pk], {})
    want = Term("decompress_G1", (Term("os2ip", (pk,), "int"),), "point")
    chk.ob(rule, f.qualname, "decompress_G1(OS2IP(pubkey))", r is want, f"got {show(r)[:120]}", f.where)
    f = repo.func(f"{G2P}.G2_to_signature")
    r = it.call_func(f, [pt], {})
    cz = Term("compress_G2", (pt,), "any")
    want = t_concat([Term("i2osp", (Term("item", (cz, 0), "int"), 48), "bytes"), Term("i2osp", (Term("item", (cz, 1), "int"), 48), "bytes")])
    chk.ob(rule, f.qualname, "I2OSP(z1, 48) ‖ I2OSP(z2, 48)", r is want, f"got {show(r)[:160]}", f.where)
    f = repo.func(f"{G2P}.signature_to_G2")
    r = it.call_func(f, [sig], {})
    want = Term("decompress_G2", ((Term("os2ip", (t_slice(sig, 0, 48),), "int"), Term("os2ip", (t_slice(sig, 48, None),), "int")),), "point")
    chk.ob(rule, f.qualname, "decompress_G2((OS2IP(sig[:48]), OS2IP(sig[48:])))", r is want, f"got {show(r)[:200]}", f.where)


MANIFEST = {
    "level": "other",
    "technique": "static analysis: predicate abstraction of the 384-bit words (mixed-radix digit domain + interval domain), exhaustive "
                 "decision-table extraction from the decoders by path enumeration and comparison with the ZCash format table; term "
                 "and linear-form comparison of the encoders and byte helpers; monomial-domain check of the FQ2 square root",
    "text": "Decides, for every 384-bit word / pair of words (partitioned into 24 + 72 cells by the predicates the format mentions), that "
            "the decoders accept exactly the cells the ZCash table accepts, reject everything else with ValueError, return the point "
            "built from the right digits carrying an on-curve fact, and select the y whose sign bit equals the flag; that the encoders "
            "emit non-overlapping digit forms with the same sign convention; that the FQ2 square root returns only roots and finds one "
            "whenever it exists (Fermat as axiom); and that the byte helpers are 48-byte big-endian conversions. One known finding "
            "(points (0, ±2) of the base curve) is listed in known_findings.json.",
    "note": "Layered on C08 (canonical residues) and C13 (normalize/is_on_curve/is_inf). Number-theoretic axioms named in evidence.",
}
