"""C12 — optimized pairings equal reference pairings; split exponentiation exact
(decided: exponent arithmetic, Frobenius table, line functions, flag threading,
same loop)."""
from __future__ import annotations

from ..term import AnalysisError, AbstractValue, Term, var, show
from ..interp import World, Interp, enumerate_paths
from ..poly import Poly
from ..ecalg import FieldSym
from ..tower import TowerSym, tower_ctor_hook
from ..curvelaw import Rep, check_function, cases_line
from ..miller import analyse_miller, analyse_pairing_entry, FSym
from ..fieldmodel import FieldVal
from ..nt import ExtField
from ..spec import params as SP

OPT_BLS = "py_ecc.optimized_bls12_381.optimized_pairing"
OPT_BN = "py_ecc.optimized_bn128.optimized_pairing"
REF_BLS = "py_ecc.bls12_381.bls12_381_pairing"
REF_BN = "py_ecc.bn128.bn128_pairing"


class ExpSym(AbstractValue):
    """λ·x^e for one symbolic x: arithmetic on exponents, λ a constant of the degree-12 field (None: 1)"""
    sort = "field"
    F = None          # the ExtField in which coefficients live (set by the rule before use)

    def __init__(self, e, coef=None):
        self.e = e
        self.coef = coef

    def _c(self):
        return self.coef if self.coef is not None else self.F.one()

    def _mk(self, e, coef):
        if coef is not None and tuple(coef) == tuple(self.F.one()):
            coef = None
        r = ExpSym(e, coef)
        r.F = self.F
        return r

    def v_getattr(self, name, it):
        if name == "inv":
            # x.inv() = x^(−1): what `/` dispatches to
            return lambda: self._mk(-self.e, None if self.coef is None else self.F.inv(self.coef))
        raise AnalysisError(f"attribute {name} of a formal power")

    def v_binop(self, op, other, reflected, it):
        if op == "pow" and not reflected and isinstance(other, int):
            return self._mk(self.e * other, None if self.coef is None else self.F.pow(self.coef, other))
        if isinstance(other, ExpSym):
            a, b = (other, self) if reflected else (self, other)
            plain = a.coef is None and b.coef is None
            if op == "mul":
                return self._mk(a.e + b.e, None if plain else self.F.mul(a._c(), b._c()))
            if op == "truediv":
                return self._mk(a.e - b.e, None if plain else self.F.mul(a._c(), self.F.inv(b._c())))
        raise AnalysisError(f"operator {op} on a formal power")


def frobenius_matrices(p, mc):
    """images of the basis 1, w, …, w^11 under x ↦ x^(p^k), k = 0..11, as coefficient vectors (Frobenius is F_p-linear)"""
    F12 = ExtField(p, tuple(mc))
    d = len(mc)
    basis = [tuple(1 if j == i else 0 for j in range(d)) for i in range(d)]
    frob1 = [F12.pow(b, p) for b in basis]
    mats = [basis]
    for _k in range(1, d):
        prev = mats[-1]
        nxt = []
        for v in prev:                      # v = Σ a_j w^j, a_j in F_p  ⇒  v^p = Σ a_j (w^j)^p
            acc = [0] * d
            for j, a in enumerate(v):
                if a:
                    for t in range(d):
                        acc[t] = (acc[t] + a * frob1[j][t]) % p
            nxt.append(tuple(acc))
        mats.append(nxt)
    return mats


def frobenius_power_of(w, fn, FQ12, mc, p, mats, args=None, pos=0):
    """(k, λ) if the one-argument function fn is x ↦ λ·x^(p^k) on every element of the degree-12 field (decided on symbolic
    coefficients: the result is compared, path by path, with Σ c_i·(w^i)^(p^k)); None when it is something else or
    outside the fragment"""
    import ast
    from ..ecalg import alg_paths, AlgState
    from ..poly import Rat
    node = fn.node
    if any(isinstance(n, (ast.Pow, ast.While)) for n in ast.walk(node)):
        return None
    x = TowerSym([Poly.var(f"c{i}", p) for i in range(len(mc))], mc, p, FQ12)
    it = Interp(w, class_hooks=[tower_ctor_hook])
    call_args = list(args) if args is not None else [None]
    call_args[pos] = x
    try:
        eps = alg_paths(w, lambda it2: it2.call_func(fn, list(call_args), {}), AlgState(), class_hooks=[tower_ctor_hook])
    except AnalysisError:
        return None
    if not eps or any(pth.outcome != "return" or not isinstance(pth.value, TowerSym) for pth in eps):
        return None
    # the constant factor λ = f(1): the coefficient of c0 in the result (the same on every path, or it is no such map)
    lams = set()
    for pth in eps:
        lam = []
        for c in pth.value.c:
            cs = Poly(c.t, p).coeffs_in("c0")
            k1 = cs.get(1, Poly.const(0, p))
            if not k1.is_const():
                return None
            lam.append(k1.const_value() % p if hasattr(k1, "const_value") else (list(k1.t.values()) or [0])[0] % p)
        lams.add(tuple(lam))
    if len(lams) != 1:
        return None
    lam = lams.pop()
    if not any(lam):
        return None
    lamT = TowerSym(list(lam), mc, p, FQ12)
    for k, M in enumerate(mats):
        wantx = TowerSym([0] * len(mc), mc, p, FQ12)
        for i in range(len(mc)):
            wantx = wantx.v_binop("add", TowerSym(M[i], mc, p, FQ12).v_binop("mul", FieldSym(Poly.var(f"c{i}")), False, it), False, it)
        wantx = lamT.v_binop("mul", wantx, False, it)
        if all(all(pth.alg.is_zero(Rat(c)) is True for c in pth.value.v_binop("sub", wantx, False, it).c) for pth in eps):
            return k, lam
    return None


def run(chk, repo, tier):
    chk.explanation = ("final_exponentiate is evaluated on a formal power x^e (exp_by_p ↦ e·p after the Frobenius rule justifies "
                       "it) and the resulting integer is compared with (p^12−1)/r; exptable and exp_by_p are evaluated on a "
                       "symbolic FQ12 element and compared with Σ c_i·(w^i)^p; reference line functions are compared with the "
                       "affine line as rational functions (the optimized ones are in C13.R3); the flag is followed from "
                       "pairing() to the branch of miller_loop; both BLS loops are shown to make the same steps.")
    # restate C05
    from . import C05 as _dep_C05
    from ..report import SubCheck as _SubCheck
    chk.rule("C12.R6", "entry-point behaviour shared by both implementations (off-curve refusal, infinity ⇒ one, lock-step chain, loop scalar, final exponent): C05's obligations re-stated", 25)
    _sub = _SubCheck()
    _err = None
    try:
        _dep_C05.run(_sub, repo, tier)
    except AnalysisError as _e:
        _err = _e
    for _rule, _construct, _key, _ok, _detail, _where in _sub.obs:
        if True and (_rule in ("C05.R1", "C05.R2", "C05.R3")):
            chk.ob("C12.R6", _construct, f"[{_rule}] {_key}", _ok, _detail, _where)
    if _err is not None and all(o[3] for o in _sub.obs):
        raise _err
    chk.rule("C12.R1", "exponent of every final_exponentiate equals (p¹²−1)/r as an integer (r | p⁴−p²+1 for the split form)", 4)
    chk.rule("C12.R2", "exptable[i] = (w^i)^p for i = 0..11 and exp_by_p(x) = Σ exptable[i]·c_i over all 12 coefficients", 2)
    chk.rule("C12.R3", "reference linefunc equals the affine secant / tangent / vertical line on every path", 2 * 3)
    chk.rule("C12.R4", "final_exponentiate flag reaches miller_loop unchanged; false ⇒ no power applied; infinity ⇒ one on both settings", 2 * 2)
    chk.rule("C12.R5", "reference and optimized loops of each curve: same scalar, same Frobenius steps; BLS: identical step sequence", 2)
    chk.not_decided += ["optimized BN (signed-digit NAF) value equals the reference value after final exponentiation (subfield argument)",
                        "c^p = c for coefficients in F_p (Fermat) is the one axiom used for exp_by_p"]
    chk.assumptions += ["x ↦ x^E is a homomorphism of the multiplicative group (so one exponentiation of a product equals the "
                        "product of exponentiations: the split form is exact)", "optimized line functions: C13.R3"]
    chk.depends_on += ["C13", "C05", "C08"]
    w = World(repo)
    it0 = Interp(w)
    pending = []
    # ---------------------------------------------------------------- R1
    for mod, O in ((REF_BN, SP.BN), (REF_BLS, SP.BLS), (OPT_BN, SP.BN), (OPT_BLS, SP.BLS)):
        f = repo.func(f"{mod}.final_exponentiate")
        p, r = O["p"], O["r"]
        # any call met while walking final_exponentiate that takes the formal power in one argument and concrete values in
        # the others is tried as a map x ↦ λ·x^(p^k) on every element (conjugation, Frobenius tables, exp_by_p, …)
        mm = repo.module(mod)
        recognised = []
        state = {"mats": None, "cache": {}}
        FQ12c = it0.eval_global(mm, "FQ12")
        mcs = it0.class_attr(FQ12c, "FQ12_MODULUS_COEFFS")
        one = tuple(1 if j == 0 else 0 for j in range(len(mcs)))

        def frob_call(it, fn, args, kw, node, f=f, p=p, state=state, FQ12c=FQ12c, mcs=mcs, one=one, recognised=recognised):
            if fn is f or kw:
                return NotImplemented
            pos = [i for i, a in enumerate(args) if isinstance(a, ExpSym)]
            if len(pos) != 1 or any(hasattr(a, "v_binop") and not isinstance(a, (ExpSym, FieldVal)) for a in args):
                return NotImplemented
            i = pos[0]
            key = (fn.qualname, i, tuple(id(a) for j, a in enumerate(args) if j != i))
            if key not in state["cache"]:
                if state["mats"] is None:
                    state["mats"] = frobenius_matrices(p, mcs)
                state["cache"][key] = frobenius_power_of(w, fn, FQ12c, mcs, p, state["mats"], args=args, pos=i)
                if state["cache"][key] is not None:
                    k_, lam_ = state["cache"][key]
                    recognised.append(f"{fn.node.name} = " + ("" if tuple(lam_) == one else "λ·") + f"x^(p^{k_})")
            kl = state["cache"][key]
            if kl is None:
                return NotImplemented
            k, lam = kl
            a = args[i]
            c = None if (a.coef is None and tuple(lam) == one) else a.F.mul(tuple(lam), a.F.pow(a._c(), p ** k))
            return a._mk(a.e * p ** k, c)
        summ = {"*": frob_call}
        it = Interp(w, summaries=summ)
        x0 = ExpSym(1)
        x0.F = ExtField(p, tuple(it0.class_attr(it0.eval_global(mm, "FQ12"), "FQ12_MODULUS_COEFFS")))
        try:
            res = it.call_func(f, [x0], {})
        except AnalysisError as e:
            # a helper that is no Frobenius power (or outside the fragment): undecided here; R2 may say why
            pending.append(e)
            continue
        E = (p ** 12 - 1) // r
        # exponents act modulo the order p^12 − 1 of the multiplicative group; a non-positive exponent would differ on 0
        same = isinstance(res, ExpSym) and (res.e - E) % (p ** 12 - 1) == 0 and res.e > 0 and res.coef is None
        ok = same and (p ** 12 - 1) % r == 0 and (p ** 4 - p ** 2 + 1) % r == 0
        chk.ob("C12.R1", f.qualname, "exponent == (p^12 − 1)/r", ok,
               f"computed exponent has {res.e.bit_length() if isinstance(res, ExpSym) else '?'} bits; congruent to (p^12−1)/r "
               f"modulo p^12−1: {same}" + (f"; helpers recognised as Frobenius powers: {', '.join(recognised)}" if recognised else ""), f.where)
    # ---------------------------------------------------------------- R2
    m = repo.module(OPT_BLS)
    p = SP.BLS["p"]
    F12 = ExtField(p, (2, 0, 0, 0, 0, 0, -2, 0, 0, 0, 0, 0))
    want = [F12.pow(tuple(1 if j == i else 0 for j in range(12)), p) for i in range(12)]
    try:
        table = it0.eval_global(m, "exptable")
    except AnalysisError as e:
        if "unresolved name" not in str(e):
            raise
        table = None             # no module-level table: exp_by_p alone is held to x ↦ x^p below
    if table is not None:
        okT = isinstance(table, (list, tuple)) and len(table) == 12 and all(isinstance(t, FieldVal) and t.v == wv for t, wv in zip(table, want))
        chk.ob("C12.R2", f"{OPT_BLS}.exptable", "[(w^i)^p for i in 0..11]", okT,
               f"{len(table) if isinstance(table, (list, tuple)) else '?'} entries", m.relpath)
    f = repo.func(f"{OPT_BLS}.exp_by_p")
    FQ12 = it0.eval_global(m, "FQ12")
    mc = it0.class_attr(FQ12, "FQ12_MODULUS_COEFFS")
    x = TowerSym([Poly.var(f"c{i}", p) for i in range(12)], mc, p, FQ12)
    from ..ecalg import alg_paths, AlgState
    from ..poly import Rat
    it = Interp(w, class_hooks=[tower_ctor_hook])
    wantx = TowerSym([0] * 12, mc, p, FQ12)
    for i in range(12):
        wantx = wantx.v_binop("add", TowerSym(want[i], mc, p, FQ12).v_binop("mul", FieldSym(Poly.var(f"c{i}")), False, it), False, it)
    eps = alg_paths(w, lambda it2: it2.call_func(f, [x], {}), AlgState(), class_hooks=[tower_ctor_hook])
    badp = []
    for pth in eps:
        res = pth.value
        if pth.outcome != "return" or not isinstance(res, TowerSym):
            badp.append(f"path {pth.branch_lines()}: {pth.outcome} {res!r}"[:200])
            continue
        diff = res.v_binop("sub", wantx, False, it)
        if not all(pth.alg.is_zero(Rat(c)) is True for c in diff.c):
            badp.append(f"path {' '.join(pth.branch_lines()) or '(straight line)'}: result differs from Σ exptable[i]·c_i")
    chk.ob("C12.R2", f.qualname, "Σ_{i<12} exptable[i]·c_i  (= x^p because c_i^p = c_i) on every path", not badp and len(eps) >= 1,
           "; ".join(badp[:2]) or f"{len(eps)} path(s)", f.where)
    # ---------------------------------------------------------------- R3
    for mod in (REF_BN, REF_BLS):
        f = repo.func(f"{mod}.linefunc")
        rep = Rep("affine")
        obs, n = check_function(w, lambda it, a, f=f: it.call_func(f, list(a), {}), rep, rep, [("finite", "finite", "finite")],
                                cases_line, "value", native_fields=False)
        for o in obs:
            chk.ob("C12.R3", f.qualname, f"{o.combo} | {o.case}", o.ok, o.detail, f.where)
    # ---------------------------------------------------------------- R4
    for mod in (OPT_BN, OPT_BLS):
        A = analyse_pairing_entry(w, repo, mod, True)
        f = A["f"]
        bad = []
        n = 0
        for pth in A["paths"]:
            for ev in pth.events:
                if ev["kind"] == "miller":
                    n += 1
                    fl = ev["kw"].get("final_exponentiate", ev["args"][2] if len(ev["args"]) > 2 else None)
                    if fl is not A["flag"]:
                        bad.append(f"miller_loop receives {show(fl)} instead of the caller's flag")
        chk.ob("C12.R4", f.qualname, "flag passed through unchanged", not bad and n >= 1, "; ".join(bad[:2]), f.where)
        rt, rf = analyse_miller(w, repo, mod, True, True), analyse_miller(w, repo, mod, True, False)
        okf = rt["ok"] and rf["ok"] and rt["value"].powered is not None and rf["value"].powered is None and rt["value"].e == rf["value"].e
        chk.ob("C12.R4", rt["f"].qualname, "flag false ⇒ the same Miller value without the power", okf,
               "; ".join((rt["problems"] + rf["problems"])[:2]), rt["f"].where)
    # ---------------------------------------------------------------- R5
    for ref, opt, nm in ((REF_BLS, OPT_BLS, "bls12_381"), (REF_BN, OPT_BN, "bn128")):
        a, b = analyse_miller(w, repo, ref, False, True), analyse_miller(w, repo, opt, True, True)
        if not (a["ok"] and b["ok"]):
            chk.ob("C12.R5", nm, "both loops are lock-step chains", False, "; ".join((a["problems"] + b["problems"])[:2]), "")
            continue
        same_end = a["R"] == b["R"] and (a["trailing"] is None) == (b["trailing"] is None) and \
            (a["trailing"] is None or (a["trailing"][0], a["trailing"][1]) == (b["trailing"][0], b["trailing"][1]))
        if nm == "bls12_381":
            ok = same_end and a["seq"] == b["seq"]
            det = f"{len(a['seq'])} steps each" if ok else "step sequences differ"
        else:
            ok = same_end
            det = "same scalar 6u+2 and Frobenius steps (digit sequences differ: binary vs signed digits)"
        chk.ob("C12.R5", nm, "reference and optimized loops agree", ok, det, "")
    if pending:
        failed = any(not o["ok"] for o in getattr(chk, "obligations", [])) or any(not o[3] for o in getattr(chk, "obs", []))
        if not failed:
            raise pending[0]


MANIFEST = {
    "level": "other",
    "technique": "static analysis: formal-power evaluation of the final exponentiation with integer comparison of the exponent, "
                 "symbolic tower evaluation of the Frobenius shortcut, polynomial identities for the line functions, dataflow of "
                 "the flag, formal replay and comparison of the Miller loops",
    "text": "Decides: the fast final exponentiation has exponent exactly (p^12−1)/r (so it equals the plain power for every element "
            "and the two-step form is exact), exp_by_p is the p-power on every FQ12 element given Fermat on the coefficients, the "
            "reference line functions are the affine lines (optimized ones: C13), the flag reaches the loop unchanged and "
            "suppresses exactly the power, and reference/optimized loops make the same steps (BLS) or end at the same point "
            "(BN). Numerical equality of the signed-digit BN loop after exponentiation is a theorem, not decided.",
    "note": "Every call inside final_exponentiate that takes the formal power in one argument is tried as x -> lambda*x^(p^k) on symbolic coefficients (Frobenius tables, conjugation); exponents are compared modulo p^12-1. Layered on C13/C05/C08. Oracle: checker's F_p^12 arithmetic and parameter polynomials.",
}
