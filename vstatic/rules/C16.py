"""C16 — HKDF and KeyGen match RFC 5869 / the BLS draft (term domain)."""
from __future__ import annotations

from ..term import AnalysisError, Term, var, show, t_concat, t_len, substitute
from ..ranges import interval_of_facts
from ..interp import Interp, World, enumerate_paths, havoc_while, HashFn
from ..bls_model import Model, SUITES, CS, resolve
from ..spec import rfc
from ..spec.params import BLS, KEYGEN_SALT

HASHMOD = "py_ecc.bls.hash"
SHA = HashFn("sha256")


def renorm(t):
    """rebuild byte-string terms after a substitution so that concatenations with b"" fold again"""
    if isinstance(t, Term):
        args = tuple(renorm(a) for a in t.args)
        if t.op == "concat":
            return t_concat(list(args))
        return Term(t.op, args, t.sort)
    if isinstance(t, tuple):
        return tuple(renorm(a) for a in t)
    return t


def run(chk, repo, tier):
    chk.explanation = ("hkdf_extract/hkdf_expand/KeyGen are evaluated on symbolic byte strings with HMAC/SHA-256 as "
                       "uninterpreted symbols; hkdf_expand after a case split on n = ceil(length/32); the resulting terms are "
                       "compared with RFC 5869 / draft-04 §2.3 written as terms.")
    ns = [0, 1, 2, 3, 4, 254, 255] if tier == "quick" else list(range(0, 256))
    chk.rule("C16.R1", "hkdf_extract = HMAC-SHA256(salt, ikm); hkdf_expand = first `length` bytes of T(1)‖…‖T(n) for every n; n > 255 raises",
             1 + len(ns) + 1)
    chk.rule("C16.R2", "KeyGen attempt: salt' = H(salt); PRK = HMAC(salt', IKM‖0); OKM = Expand(PRK, key_info‖I2OSP(48,2), 48); "
                       "SK = OS2IP(OKM) mod r; initial salt; nothing else carried", 3 * 4)
    chk.assumptions += ["byte strings compared in the free monoid over atoms (constants are merged, I2OSP of constants folded)",
                        "hashlib / hmac are what their names say (trusted)"]
    chk.not_decided += ["minimum IKM length of the draft is not enforced by the code (not part of the statement)"]
    w = World(repo)
    ext = repo.func(f"{HASHMOD}.hkdf_extract")
    exp = repo.func(f"{HASHMOD}.hkdf_expand")
    salt, ikm, prk, info = (var(n, "bytes") for n in ("salt", "ikm", "prk", "info"))
    want = rfc.hkdf_extract(SHA, salt, ikm)
    epaths = enumerate_paths(w, lambda it: it.call_func(ext, [salt, ikm], {}))
    bad = []
    for pth in epaths:
        if pth.outcome != "return":
            bad.append(f"raises {pth.value.clsname()} at {pth.value.where}")
            continue
        # a path taken only for an empty argument: that argument is b"" there
        empt = {}
        for a, t, _w in pth.facts:
            for v in (salt, ikm):
                lo, hi, _h, _ = interval_of_facts([(a, t)], t_len(v))
                if hi <= 0:
                    empt[v] = b""
        g, wv = pth.value, want
        if empt:
            g, wv = renorm(substitute(g, empt)), renorm(substitute(wv, empt))
        if g is not wv:
            bad.append(f"path {' '.join(pth.branch_lines()) or '(straight line)'}: got {show(g)}, want {show(wv)}")
    chk.ob("C16.R1", ext.qualname, "HMAC-SHA256(salt, ikm)", not bad and len(epaths) >= 1, "; ".join(bad[:2]) or f"{len(epaths)} path(s)", ext.where)
    L = var("length", "int")
    for n in ns + [256]:
        key = Term("ceildiv", (L, 32), "int")

        def run1(it):
            return it.call_func(exp, [prk, info, L], {})
        paths = enumerate_paths(w, run1, int_bindings={key: n})
        if n <= 255:
            # ceil(length / 32) = n bounds length: 32(n−1) < length <= 32n (n = 0: length <= 0); a path whose facts put length
            # outside is not an execution with this n (e.g. an explicit `length > 255·32` guard)
            feas = []
            for pth in paths:
                lo_, hi_, _h, _o = interval_of_facts([(a, t) for a, t, _w in pth.facts], L)
                if lo_ > 32 * n or (n > 0 and hi_ <= 32 * (n - 1)):
                    continue
                feas.append(pth)
            ok = len(feas) == 1 and feas[0].outcome == "return"
            used = ok and any(ev["kind"] == "case_split" for ev in feas[0].events)
            wantt = rfc.hkdf_expand(SHA, prk, info, L, n)
            gott = feas[0].value if ok else None
            chk.ob("C16.R1", exp.qualname, f"n = {n}", ok and used and gott is wantt,
                   (f"got {show(gott)[:300]}; want {show(wantt)[:300]}" if ok else
                    f"{len(feas)} feasible paths / {feas[0].outcome if feas else '-'}"
                    + (f" {feas[0].value.clsname()} at {feas[0].value.where}" if feas and feas[0].outcome == "raise" else ""))
                   + ("" if used else "; n is not computed as ceil(length / 32)"), exp.where, nontrivial=n > 0)
        else:
            ok = all(p.outcome == "raise" for p in paths)
            chk.ob("C16.R1", exp.qualname, "n = 256 is refused", ok,
                   "raises" if ok else f"returns {show(paths[0].value)[:120]}", exp.where)
    # ---------------------------------------------------------------- KeyGen
    M = Model(repo, "P")
    r = BLS["r"]
    for suite in SUITES:
        kg = M.method(M.suite(suite), "KeyGen")
        IKM, KI = var("IKM", "bytes"), var("key_info", "bytes")
        paths, m = M.paths(suite, "KeyGen", [IKM, KI], while_hooks={kg.qualname: havoc_while})
        construct = f"{CS}.{suite}.KeyGen"
        exits = [ev for p in paths for ev in p.events if ev["kind"] == "while_exit"]
        if len(paths) != 1 or len(exits) != 1:
            chk.ob("C16.R2", construct, "one retry loop, one path", False,
                   f"{len(paths)} paths, {len(exits)} summarised loops (the draft's KeyGen retries until SK != 0)", m.where)
            continue
        ev = exits[0]
        carried, final = ev["carried"], ev["final"]
        names = set(carried)
        # roles are found by what the variables are, not by what they are called: the salt is the carried byte string that is
        # initialised with the draft's constant; the key is the integer the loop produces
        salt_name = next((nm for nm in sorted(carried) if carried[nm][0] == KEYGEN_SALT or isinstance(carried[nm][0], bytes)), None)
        w_candidates = [nm for nm in sorted(final) if nm != salt_name and isinstance(final.get(nm), (Term, int))
                        and getattr(final.get(nm), "sort", "int") == "int" and not isinstance(final.get(nm), bool)]
        chk.ob("C16.R2", construct, "only the salt (and the key under test) is carried between attempts",
               salt_name is not None and len(names - {salt_name}) <= 1, f"carried {sorted(names)}", m.where)
        if salt_name is None:
            continue
        init_salt, hsalt = carried[salt_name]
        chk.ob("C16.R2", construct, "initial salt", init_salt == KEYGEN_SALT, f"initial salt {init_salt!r}", m.where)
        w_salt, w_sk = rfc.keygen_attempt(SHA, hsalt, IKM, KI, r)
        chk.ob("C16.R2", construct, "salt' = H(salt)", final[salt_name] is w_salt, f"got {show(final[salt_name])}", m.where)
        got_sk = [final[nm] for nm in w_candidates if final[nm] is w_sk]
        shown = [show(final[nm])[:300] for nm in w_candidates if isinstance(final[nm], Term) and final[nm].op == "mod"][:1]
        chk.ob("C16.R2", construct, "SK' = OS2IP(HKDF-Expand(HKDF-Extract(salt', IKM‖0x00), key_info‖I2OSP(48,2), 48)) mod r",
               bool(got_sk), f"got {shown}; want {show(w_sk)[:300]}", m.where)

MANIFEST = {
    "level": "other",
    "technique": "static analysis: symbolic evaluation in a byte-string term domain (HMAC/SHA-256 uninterpreted, loops unrolled "
                 "after a case split on the block count) and normal-form comparison with RFC 5869 / BLS draft-04 KeyGen terms",
    "text": "Decides for all salts/IKMs/infos/lengths that hkdf_extract and hkdf_expand return the RFC 5869 terms (every block "
            "count 0..255 in the thorough tier, boundary sample in quick; 256 blocks refused) and that one KeyGen attempt is "
            "the draft's (salt re-hashed, IKM‖0x00, key_info‖I2OSP(48,2), 48 bytes, mod r) with only the salt carried between "
            "attempts. KeyGen is not called by any test.",
    "note": "Free-monoid reading of byte strings; hashlib/hmac trusted; result range [1,r-1] is C01.R3.",
}
