"""C19 — ECDSA recovery returns the algebraically determined key or refuses."""
from __future__ import annotations

from ..term import AnalysisError, Term, var, show, atom_of
from ..interp import World, Interp, enumerate_paths, _hashable
from ..ranges import interval_of_facts, normalise, show_set, INF
from ..intterm import eval_term, to_poly, cancel_inverses
from ..poly import Poly
from ..secp_model import SECP
from ..spec import params as SP


def opaque(op, sort="point"):
    def s(it, f, args, kwargs, node):
        it.emit("sink", fn=op, args=[_hashable(a) for a in args], facts=dict(it.facts), node=node)
        return Term(op, tuple(_hashable(a) for a in args), sort)
    return s


def recover_summaries(repo):
    S = {f"{SECP}.jacobian_multiply": opaque("jmul"), f"{SECP}.jacobian_add": opaque("jadd"),
         f"{SECP}.from_jacobian": opaque("from_jacobian"), f"{SECP}.inv": opaque("inv", "int"),
         f"{SECP}.bytes_to_int": opaque("os2ip", "int")}
    for q in S:
        repo.func(q)
    return S


def group_of(t, Gc, N, names, inv_pairs):
    """jmul/jadd term -> dict base -> Poly mod N"""
    if isinstance(t, Term):
        if t.op == "jmul":
            k = to_poly(t.args[1], N, names, inv_pairs)
            return {b: c * k for b, c in group_of(t.args[0], Gc, N, names, inv_pairs).items()}
        if t.op == "jadd":
            a = group_of(t.args[0], Gc, N, names, inv_pairs)
            for b, c in group_of(t.args[1], Gc, N, names, inv_pairs).items():
                a[b] = a.get(b, Poly.const(0, N)) + c
            return a
        if t.op == "from_jacobian":
            return group_of(t.args[0], Gc, N, names, inv_pairs)
    if t == Gc:
        return {"G": Poly.const(1, N)}
    if isinstance(t, tuple) and len(t) == 3 and t[2] == 1:
        return {("R", t[0], t[1]): Poly.const(1, N)}
    raise AnalysisError(f"not a group term: {show(t)[:120]}")


def run(chk, repo, tier):
    chk.explanation = ("ecdsa_raw_recover is evaluated with symbolic (v, r, s) and hash; the accepted v-set, the three "
                       "rejection gates and their dominance over every point/inverse use are read off the path facts; the "
                       "parity selection is tabulated over v x parity(beta); the result is evaluated in the formal group over F_N.")
    # restate C18
    from . import C18 as _dep_C18
    from ..report import SubCheck as _SubCheck
    chk.rule("C19.R4", "the Jacobian routines recovery is built on are the group law for all integers and representatives (C18.R1/R2 re-stated)", 20)
    _sub = _SubCheck()
    _err = None
    try:
        _dep_C18.run(_sub, repo, tier)
    except AnalysisError as _e:
        _err = _e
    for _rule, _construct, _key, _ok, _detail, _where in _sub.obs:
        if True and (_rule in ("C18.R1", "C18.R2")):
            chk.ob("C19.R4", _construct, f"[{_rule}] {_key}", _ok, _detail, _where)
    if _err is not None and all(o[3] for o in _sub.obs):
        raise _err
    chk.rule("C19.R1", "accepted v-set is exactly {27, 28}; residue, r≢0, s≢0 gates dominate every use of (x,y) as a point and "
                       "of inv(r, N); each rejection raises ValueError", 3)
    chk.rule("C19.R2", "parity table: v = 27 ⇒ y even, v = 28 ⇒ y odd, y ∈ {β, P−β}, β = (x³+Ax+B)^((P+1)/4)", 4)
    chk.rule("C19.R3", "result is Q with (r mod N)·Q = s·R − z·G in the formal group over F_N", 1)
    chk.assumptions += ["jacobian_* are the group operations (C18/C13); inv(·, N) is the modular inverse for non-zero arguments "
                        "(Euclid invariant, C08.R4, checked for this copy); N prime (C18.R3)",
                        "β = 0 (a point of order 2) does not occur on secp256k1"]
    chk.depends_on += ["C18", "C13", "C08"]
    w = World(repo)
    it0 = Interp(w)
    m = repo.module(SECP)
    Pm, N, A, B, Gx, Gy = (it0.eval_global(m, n) for n in ("P", "N", "A", "B", "Gx", "Gy"))
    if (Pm, N) != (SP.SECP_P, SP.SECP_N):
        chk.ob("C19.R1", SECP, "field prime and group order are SEC 2's", False, "constants differ (see C18.R3)", "")
    f = repo.func(f"{SECP}.ecdsa_raw_recover")
    summ = recover_summaries(repo)
    v, r, s, h = var("v", "int"), var("r", "int"), var("s", "int"), var("msghash", "bytes")

    def run1(it):
        return it.call_func(f, [h, (v, r, s)], {})
    paths = enumerate_paths(w, run1, summaries=summ)
    rets = [p for p in paths if p.outcome == "return"]
    # ---- R1 accepted v-set
    acc = []
    for p in rets:
        lo, hi, holes, _ = interval_of_facts([(a, t) for a, t, _ in p.facts], v)
        acc.append((lo, hi))
    accs = normalise(acc)
    chk.ob("C19.R1", f.qualname, "accepted v-set == {27, 28}", accs == [(27, 28)], f"accepted v ∈ {show_set(accs)}", f.where)
    bad_exc = [p for p in paths if p.outcome == "raise" and p.value.clsname() != "builtins.ValueError"]
    chk.ob("C19.R1", f.qualname, "every rejection raises ValueError", not bad_exc and len(paths) > len(rets),
           "; ".join(f"{p.value.clsname()} at {p.value.where}" for p in bad_exc[:2]) or f"{len(paths) - len(rets)} rejecting paths", f.where)
    # gates at sinks
    x = r
    rhs = Term("mod", (Term("add", (Term("add", (Term("mul", (Term("mul", (x, x), "int"), x), "int"), Term("mul", (x, A), "int") if A else 0), "int"), B), "int"), Pm), "int")
    gate_bad = []
    nsink = 0
    for p in rets:
        for ev in p.events:
            if ev["kind"] != "sink" or ev["fn"] not in ("jmul", "jadd", "inv"):
                continue
            nsink += 1
            facts = ev["facts"]
            names = {}
            # (1) r, s non-zero mod N
            for q, nm in ((r, "r"), (s, "s")):
                a = Term("eq", tuple(sorted((0, Term("mod", (q, N), "int")), key=lambda z: (isinstance(z, Term), repr(z)))), "bool")
                if not _nonzero_mod(facts, q, N):
                    gate_bad.append(f"{ev['fn']} at {ev['where']} reachable with {nm} ≡ 0 (mod N)")
            # (2) residue gate: some true fact eq(mod(T, P), 0) with T ≡ x³+Ax+B − y² for the point used
            pts = [a for a in ev["args"] if isinstance(a, tuple) and len(a) == 3 and a != (Gx, Gy, 1)]
            for pt in pts:
                if isinstance(pt[1], Term) and pt[1].op == "sub" and pt[1].args[0] == Pm and isinstance(pt[1].args[1], Term) \
                        and pt[1].args[1].op == "item":
                    gate_bad.append(f"{ev['fn']} at {ev['where']} takes a hand-negated Jacobian point (x, P − y, z) built from another "
                                    "routine's result: for the identity (0, 0, z) this is (0, P, z), whose y is truthy, so the "
                                    "routines no longer recognise it as the identity (unreduced coordinate)")
                    continue
                if not _residue_gate(facts, pt, x, A, B, Pm):
                    gate_bad.append(f"{ev['fn']} at {ev['where']} uses ({show(pt[0])[:20]}, y, 1) without the on-curve (residue) gate")
    chk.ob("C19.R1", f.qualname, "gates dominate every point / inverse use", not gate_bad and nsink >= 4,
           "; ".join(sorted(set(gate_bad))[:3]) or f"{nsink} sink evaluations on {len(rets)} returning paths", f.where)
    # ---- R2 parity table, per concrete v
    beta_want = Term("powmod", (rhs, (Pm + 1) // 4, Pm), "int")
    for vv in (27, 28):
        def run2(it, vv=vv):
            return it.call_func(f, [h, (vv, r, s)], {})
        ps = [p for p in enumerate_paths(w, run2, summaries=summ) if p.outcome == "return"]
        rows = []
        okall = bool(ps)
        for p in ps:
            pts = [a for ev in p.events if ev["kind"] == "sink" and ev["fn"] == "jmul" for a in ev["args"]
                   if isinstance(a, tuple) and len(a) == 3 and a != (Gx, Gy, 1)]
            if not pts:
                okall = False
                rows.append("no point use")
                continue
            y = pts[0][1]
            beta = _beta_of(y, Pm)
            if beta is None or not _beta_ok(beta, x, A, B, Pm):
                okall = False
                rows.append(f"y = {show(y)[:80]} is not β or P−β with β = (x³+Ax+B)^((P+1)/4) mod P")
                continue
            bpar = Term("mod", (beta, 2), "int")
            feasible = []
            for b in (0, 1):
                env = {bpar: b, beta: b}            # only the parity of β matters below
                try:
                    consistent = all(bool(eval_term(a, {bpar: b})) == t for a, t, _ in p.facts
                                     if isinstance(a, Term) and _mentions(a, bpar))
                except KeyError:
                    consistent = True
                if not consistent:
                    continue
                ypar = b if y is beta else (Pm - b) % 2
                feasible.append((b, ypar))
                if ypar != (vv == 28):
                    okall = False
            rows.append(f"y {'= β' if y is beta else '= P−β'} for β parity {[b for b, _ in feasible]} ⇒ y parity {[yp for _, yp in feasible]}")
        chk.ob("C19.R2", f.qualname, f"v = {vv} ⇒ y {'odd' if vv == 28 else 'even'}", okall and len(ps) == 2,
               "; ".join(rows) + f" ({len(ps)} returning paths)", f.where)
    chk.ob("C19.R2", f.qualname, "β exponent is (P+1)/4 and P ≡ 3 (mod 4)", Pm % 4 == 3, "", f.where)
    chk.ob("C19.R2", f.qualname, "x-coordinate of R is r itself", all(_x_is_r(p, r, Gx, Gy) for p in rets) and bool(rets), "", f.where)
    # ---- R3 algebra
    z = Term("os2ip", (h,), "int")
    names = {r: "r", s: "s", z: "z"}
    probs = []
    for p in rets:
        inv_pairs = {}
        try:
            g = group_of(_hashable(p.value), (Gx, Gy, 1), N, names, inv_pairs)
        except AnalysisError as ex:
            probs.append(str(ex))
            continue
        Rb = [b for b in g if b != "G"]
        if len(Rb) != 1:
            probs.append(f"result is not a combination of G and one lifted point: {list(g)}")
            continue
        cG = cancel_inverses(g.get("G", Poly.const(0, N)) * Poly.var("r", N), inv_pairs)
        cR = cancel_inverses(g[Rb[0]] * Poly.var("r", N), inv_pairs)
        okG = (cG + Poly.var("z", N)).is_zero()
        okR = (cR - Poly.var("s", N)).is_zero()
        if not (okG and okR):
            probs.append(f"r·Q = [{cR!r}]·R + [{cG!r}]·G, expected [s]·R + [-z]·G")
    chk.ob("C19.R3", f.qualname, "(r mod N)·Q = s·R − z·G", not probs and bool(rets), "; ".join(sorted(set(probs))[:2]) or f"{len(rets)} returning paths", f.where)


def _mentions(t, sub):
    from ..term import subterms
    return any(x is sub for x in subterms(t))


def _nonzero_mod(facts, q, N):
    for a, t in facts.items():
        if isinstance(a, Term) and a.op == "eq" and t is False:
            x, y = a.args
            for u, w_ in ((x, y), (y, x)):
                if isinstance(w_, int) and w_ == 0 and isinstance(u, Term) and u.op == "mod" and u.args[0] is q and u.args[1] == N:
                    return True
    return False


def _residue_gate(facts, pt, x, A, B, Pm):
    names = {x: "x", pt[1]: "y"} if isinstance(pt[1], Term) else {x: "x"}
    beta = _beta_of(pt[1], Pm)
    if beta is not None:
        # y is the root beta or P − beta: a gate written on beta (beta·beta ≡ x³ + Ax + B) is a gate on y (same square)
        names = {x: "x", beta: "y"}
    want = Poly.var("x", Pm) ** 3 + Poly.const(A, Pm) * Poly.var("x", Pm) + Poly.const(B, Pm) - (to_poly(pt[1], Pm, names) ** 2)
    if pt[0] is not x:
        return False
    for a, t in facts.items():
        # any established equation L == R (or refuted L != R) whose difference is ±(x³ + Ax + B − y²) modulo P
        if isinstance(a, Term) and a.op == "eq" and t is True:
            u, w_ = a.args
            try:
                d = to_poly(u, Pm, names) - to_poly(w_, Pm, names)
            except AnalysisError:
                continue
            if (d - want).is_zero() or (d + want).is_zero():
                return True
    return False


def _beta_of(y, Pm):
    if isinstance(y, Term) and y.op == "powmod":
        return y
    if isinstance(y, Term) and y.op == "sub" and y.args[0] == Pm and isinstance(y.args[1], Term) and y.args[1].op == "powmod":
        return y.args[1]
    return None


def _beta_ok(beta, x, A, B, Pm):
    base, e, m = beta.args
    if m != Pm or e != (Pm + 1) // 4:
        return False
    want = Poly.var("x", Pm) ** 3 + Poly.const(A, Pm) * Poly.var("x", Pm) + Poly.const(B, Pm)
    return (to_poly(base, Pm, {x: "x"}) - want).is_zero()


def _x_is_r(p, r, Gx, Gy):
    pts = [a for ev in p.events if ev["kind"] == "sink" and ev["fn"] == "jmul" for a in ev["args"]
           if isinstance(a, tuple) and len(a) == 3 and a != (Gx, Gy, 1)]
    return bool(pts) and all(pt[0] is r and pt[2] == 1 for pt in pts)


MANIFEST = {
    "level": "other",
    "technique": "static analysis: path enumeration with finite-set/range facts (accepted v-set, gate dominance at sinks), "
                 "finite truth table for the parity selection, formal-group evaluation over F_N of the result term",
    "text": "Decides for all hashes and all (v, r, s): v outside {27,28}, r or s ≡ 0 mod N and non-residue x are refused with "
            "ValueError before any point or inverse use; the lifted point has x = r and y of the parity dictated by v "
            "(never the other one); the returned term satisfies (r mod N)·Q = s·R − z·G identically.",
    "note": "Layered on C18/C13 (Jacobian routines are the group law) and C08.R4 (Euclid). Trusted: evaluator model.",
}
