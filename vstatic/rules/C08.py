"""C08 — field classes satisfy the field axioms with canonical representatives
(decided: every operator equals the quotient-ring operation on canonical
representatives, so the ring axioms are inherited)."""
from __future__ import annotations

import ast

from ..term import AnalysisError
from ..interp import World, Interp
from ..loader import ClassInfo
from ..fieldcheck import FieldSubject, run_fq, run_fqp
from ..euclid import check_euclid, check_pow
from ..effects import Effects

REF = "py_ecc.fields.field_elements"
OPT = "py_ecc.fields.optimized_field_elements"
CONCRETE = [f"py_ecc.fields.{pre}{curve}_{cn}" for pre in ("", "optimized_") for curve in ("bn128", "bls12_381")
            for cn in ("FQ", "FQ2", "FQ12")]
FIELD_ATTRS = {"n", "coeffs", "modulus_coeffs", "degree", "mc_tuples", "FQP_corresponding_FQ_class"}


def synthetic_classes(repo):
    """dense moduli / other primes: subclasses of the generic FQ / FQ2 / FQ12 created by the checker"""
    out = []
    for modn, pre in ((REF, "ref"), (OPT, "opt")):
        m = repo.module(modn)
        for p in (13, 2**127 - 1):
            out.append(ClassInfo(m, f"synthetic_{pre}_FQ_{p.bit_length()}b", None, [m.classes["FQ"]], {"field_modulus": p}))
            out.append(ClassInfo(m, f"synthetic_{pre}_FQ2_dense_{p.bit_length()}b", None, [m.classes["FQ2"]],
                                 {"field_modulus": p, "FQ2_MODULUS_COEFFS": (5, 3)}))
        out.append(ClassInfo(m, f"synthetic_{pre}_FQ12_dense", None, [m.classes["FQ12"]],
                             {"field_modulus": 2**61 - 1, "FQ12_MODULUS_COEFFS": (3, 1, 4, 1, 5, 9, 2, 6, 5, 3, 5, 8)}))
    return out


def run(chk, repo, tier):
    chk.explanation = ("The bodies of the field classes are walked by the evaluator (no native model) on symbolic operands built "
                       "through the constructors; every operator's stored result is compared, modulo p, with the quotient-ring "
                       "operation computed by the checker, and must be stored reduced and in the operand's class. The Euclid "
                       "loop is checked by invariant, the power routines by loop invariant / induction schema, and the call "
                       "graph of operator methods for operator-dispatched recursion.")
    # restate C20
    from . import C20 as _dep_C20
    from ..report import SubCheck as _SubCheck
    chk.rule("C08.R7", "the field classes hold no shared mutable state (C20 re-stated for the field modules)", 10)
    _sub = _SubCheck()
    _err = None
    try:
        _dep_C20.run(_sub, repo, tier)
    except AnalysisError as _e:
        _err = _e
    for _rule, _construct, _key, _ok, _detail, _where in _sub.obs:
        if _construct.startswith("py_ecc.fields") or _construct.startswith("py_ecc.utils") or "fields/" in str(_where):
            chk.ob("C08.R7", _construct, f"[{_rule}] {_key}", _ok, _detail, _where)
    if _err is not None and all(o[3] for o in _sub.obs):
        raise _err
    chk.rule("C08.R1", "FQ operators (element and int operands) equal the F_p operation on canonical representatives", 4 * 30)
    chk.rule("C08.R2", "FQP operators equal the operation of F_p[X]/(m) with the class's modulus (degree 2 and 12, both curves)", 8 * 15)
    chk.rule("C08.R3", "every stored value is reduced (class invariant) and field attributes are written only in constructors", 1)
    chk.rule("C08.R4", "prime_field_inv / secp256k1.inv: extended-Euclid invariant, inv0(0) = 0, termination", 10)
    chk.rule("C08.R5", "__pow__ returns self^other for every other ≥ 0 (loop invariant / induction schema)", 4 * 3)
    chk.rule("C08.R6", "no operator-dispatched recursion in __pow__ (C-stack depth = bit length of the exponent)", 4)
    chk.rule("C08.R8", "FQP.inv() of every extension class (degree 2 and 12): polynomial extended Euclid by loop schema — init, deg(), "
                       "quotient cancels the leading term, step = (hm − lm·r, high − low·r, lm, low) without truncation loss on every "
                       "pair of degrees, canonical storage of what deg() reads, exit value lm·inv0(low[0]), irreducible modulus", 8 * 9)
    chk.not_decided += [                        "comparisons of an FQ with a foreign int compare the unreduced int (read as outside the statement)"]
    chk.assumptions += ["field objects handed to a constructor belong to the same modulus (FQ.__init__ copies val.n)",
                        "inv0(b) is the inverse of b for b ≢ 0: from the Euclid invariant (R4) with p prime (C07.R5)"]
    w = World(repo)
    classes = [repo.cls(q) for q in CONCRETE]
    if tier == "thorough":
        classes += synthetic_classes(repo)
    else:
        classes += [c for c in synthetic_classes(repo) if "FQ2_dense_4b" in c.name]
    nres = 0
    reduced_ok = True
    for cls in classes:
        S = FieldSubject(w, cls)
        res = run_fq(S) if S.kind == "FQ" else run_fqp(S)
        rule = "C08.R1" if S.kind == "FQ" else "C08.R2"
        for key, ok, det, where in res:
            chk.ob(rule, cls.qualname, key, ok, det, where)
            nres += 1
    # ---- R3: stores to field attributes
    E = Effects(repo)
    from ..effects import constructor_helpers
    helpers = constructor_helpers(E)
    bad = []
    for s in E.sites:
        for tt in ast.walk(s.node):
            if isinstance(tt, ast.Attribute) and isinstance(tt.ctx, (ast.Store, ast.Del)) and tt.attr in FIELD_ATTRS:
                if (s.func.node.name != "__init__" and s.func.qualname not in helpers) \
                        or not (isinstance(tt.value, ast.Name) and tt.value.id == s.func.params[0]):
                    bad.append(f"{s.func.qualname} writes .{tt.attr} at {s.where}")
    chk.ob("C08.R3", "py_ecc.fields", "field attributes written only by constructors; every operator result above is stored reduced",
           not bad, "; ".join(bad[:3]), "py_ecc/fields")
    # ---- R4
    for q in ("py_ecc.utils.prime_field_inv", "py_ecc.secp256k1.secp256k1.inv"):
        f = repo.func(q)
        for key, ok, det in check_euclid(w, f, total=q.startswith("py_ecc.utils")):
            chk.ob("C08.R4", q, key, ok, det, f.where)
    # ---- R8: polynomial Euclid of the extension classes
    from ..polyeuclid import schema_obligations
    ext = [q for q in CONCRETE if not q.endswith("_FQ")]
    for q, key, ok, det, where in schema_obligations(repo, ext):
        chk.ob("C08.R8", q, key, ok, det, where)
    if tier == "thorough":
        # other primes and a dense quadratic modulus (the synthetic degree-12 modulus is not irreducible: inversion is not claimed there)
        from ..polyeuclid import check_inv_schema
        for cls in synthetic_classes(repo):
            S = FieldSubject(w, cls)
            if S.kind == "FQP" and S.d == 2:
                for key, ok, det, where in check_inv_schema(S):
                    chk.ob("C08.R8", cls.qualname, key, ok, det, where)
    # ---- R5 / R6
    pow_obligations(chk, repo, w)
    chk.note_analysed(field_classes=len(classes), operator_obligations=nres)

def pow_obligations(chk, repo, w, r5="C08.R5", r6="C08.R6"):
    for q, d in ((f"{REF}.FQ.__pow__", None), (f"{REF}.FQP.__pow__", 2), (f"{OPT}.FQ.__pow__", None), (f"{OPT}.FQP.__pow__", 12)):
        m = repo.func(q)
        res, reentry = check_pow(w, m, d)
        for key, ok, det in res:
            chk.ob(r5, q, key, ok, det, m.where)
        chk.ob(r6, q, "`**` inside __pow__ re-enters __pow__ through operator dispatch", not reentry,
               (f"{len(reentry)} re-entry site(s): each exponent bit consumes one C-stack level on CPython ≥ 3.12 regardless of "
                f"sys.setrecursionlimit; x ** n fails for n ≳ 2^750") if reentry else "iterative", m.where)


MANIFEST = {
    "level": "other",
    "technique": "static analysis: abstract interpretation of the field class bodies in a polynomial domain modulo p (operator-"
                 "wise equality with the quotient-ring operation, reducedness lattice), loop-invariant checking for the integer and polynomial "
                 "Euclid routines and the power routines, call-graph check for operator-dispatched recursion",
    "text": "Decides for all elements and int operands of the 12 concrete prime/quadratic/degree-12 classes (plus synthetic dense "
            "moduli and other primes in the thorough tier): every operator's result is the quotient-ring result, stored "
            "reduced, in the operand's class — hence associativity, commutativity, distributivity, neutral elements and negation "
            "are inherited; prime_field_inv is the inverse with inv0(k·p)=0 for every multiple of p (zero test on the residue; an inverse helper the "
            "operators call instead is held to the same contract at each call site); x**n = x^n for every n ≥ 0 by loop invariant, with "
            "no recursion depth proportional to the exponent. The polynomial-Euclid inv() is decided for the quadratic extensions "
            "path by path (a·inv(a) = 1 on every path of the loop, inv(0) = 0, termination within the degree bound) and for every "
            "degree, 12 included, by a loop schema (R8): init, deg(), the quotient cancels the leading term, the step is "
            "(hm − lm·r, high − low·r, lm, low) with no truncation loss on every pair of degrees, canonical storage of what deg() "
            "reads, exit value lm·inv0(low[0]), irreducible modulus — from which the congruences lm·a ≡ low, hm·a ≡ high (mod m), "
            "the degree bounds and termination follow (argument in vstatic/polyeuclid.py).",
    "note": "Trusted: evaluator model, checker's polynomial/tower arithmetic. p prime is C07.R5.",
}
