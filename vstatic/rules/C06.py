"""C06 — ECDSA sign: valid, low-s, recoverable, deterministic nonce."""
from __future__ import annotations

from ..term import AnalysisError, Term, var, show
from ..interp import World, Interp, enumerate_paths, _hashable, HashFn
from ..intterm import eval_term, to_poly, cancel_inverses
from ..poly import Poly
from ..ranges import INF
from ..secp_model import SECP
from ..spec import rfc
from .C18 import check_bytes_to_int


def linear_bounds(facts, s):
    """bounds on integer term s from facts of the forms  c*s < K, K < c*s, s < K, K < s"""
    lo, hi = -INF, INF

    def coef(t):
        if t is s:
            return 1
        if isinstance(t, Term) and t.op == "mul":
            a, b = t.args
            if a is s and isinstance(b, int) and b > 0:
                return b
            if b is s and isinstance(a, int) and a > 0:
                return a
        return None
    for atom, truth in facts:
        if not (isinstance(atom, Term) and atom.op == "lt"):
            continue
        L, R = atom.args
        c = coef(L)
        if c and isinstance(R, int):          # c*s < R
            if truth:
                hi = min(hi, (R - 1) // c)
            else:
                lo = max(lo, -(-R // c))
            continue
        c = coef(R)
        if c and isinstance(L, int):          # L < c*s
            if truth:
                lo = max(lo, L // c + 1)
            else:
                hi = min(hi, L // c)
    return lo, hi


def run(chk, repo, tier):
    chk.explanation = ("ecdsa_raw_sign is evaluated with the nonce, R = k·G and the inverses opaque; per path the ranges of v "
                       "and s are computed from the facts, the signing equation is a polynomial identity over F_N, the nonce "
                       "routine is compared with RFC 6979 §3.2 as a term, and sign∘recover is evaluated in the formal group.")
    chk.rule("C06.R1", "v ∈ {27, 28}; s ≤ (N−1)/2 on every path; r is the x-coordinate of k·G", 2)
    chk.rule("C06.R2", "s·k ≡ z + r·d (mod N), z = OS2IP(hash), d = OS2IP(key)", 2)
    chk.rule("C06.R3", "nonce = RFC 6979 §3.2 HMAC-SHA256 chain over key‖hash (raw-bytes convention), big-endian", 3)
    chk.rule("C06.R4", "sign∘recover = d·G in the formal group on every path (v flip and s flip agree); recover is as C19 requires; Jacobian routines as C18.R1/R2 require", 2 + 8 + 20)
    chk.not_decided += ["1 ≤ r < N (r is returned unreduced), s ≠ 0, k ∈ [1, N−1]: 2^-128 value events, not visible in the code's shape",
                        "RFC 6979's reduction of h1 modulo q and its retry loop are not part of the code (raw-bytes convention)"]
    chk.assumptions += ["multiply/inv are the group operation / modular inverse (C18, C08.R4)",
                        "recover's point selection and formula are as C19.R2/R3 establish"]
    chk.depends_on += ["C18", "C19", "C08"]
    w = World(repo)
    it0 = Interp(w)
    m = repo.module(SECP)
    N, Gc = it0.eval_global(m, "N"), it0.eval_global(m, "G")
    f = repo.func(f"{SECP}.ecdsa_raw_sign")
    gk = repo.func(f"{SECP}.deterministic_generate_k")
    h, priv = var("msghash", "bytes"), var("priv", "bytes")
    k = var("k", "int")
    calls = {}

    def s_k(it, fr, args, kwargs, node):
        calls["k"] = list(args)
        return k

    def s_mul(it, fr, args, kwargs, node):
        calls["mul"] = list(args)
        base = Term("mulG", (_hashable(args[1]),), "point")
        return (Term("item", (base, 0), "int"), Term("item", (base, 1), "int"))

    def s_inv(it, fr, args, kwargs, node):
        return Term("inv", (args[0], args[1]), "int")

    def s_b2i(it, fr, args, kwargs, node):
        return Term("os2ip", (_hashable(args[0]),), "int")
    summ = {gk.qualname: s_k, f"{SECP}.multiply": s_mul, f"{SECP}.inv": s_inv, f"{SECP}.bytes_to_int": s_b2i}
    for q in summ:
        repo.func(q)

    def run1(it):
        return it.call_func(f, [h, priv], {})
    paths = enumerate_paths(w, run1, summaries=summ)
    base = Term("mulG", (k,), "point")
    rx, ry = Term("item", (base, 0), "int"), Term("item", (base, 1), "int")
    z, d = Term("os2ip", (h,), "int"), Term("os2ip", (priv,), "int")
    names = {rx: "r", z: "z", d: "d", k: "k"}
    ok_calls = (calls.get("k") == [h, priv] and calls.get("mul") and calls["mul"][0] == Gc and calls["mul"][1] is k)
    chk.ob("C06.R1", f.qualname, "k = deterministic_generate_k(msghash, priv); (r, y) = multiply(G, k)", bool(ok_calls),
           f"nonce call args {[show(a) for a in calls.get('k', [])]}, multiply args {[show(a)[:40] for a in calls.get('mul', [])]}", f.where)
    ypar = Term("mod", (ry, 2), "int")
    for p in paths:
        pl = " ".join(p.branch_lines()) or "(straight)"
        if p.outcome != "return" or not (isinstance(p.value, tuple) and len(p.value) == 3):
            chk.ob("C06.R1", f.qualname, f"path {pl}", False, f"does not return (v, r, s): {p.outcome} {show(p.value)[:80]}", f.where)
            continue
        v, r, s_out = p.value
        facts = [(a, t) for a, t, _ in p.facts]
        # ---- v range and flip
        try:
            vs = [eval_term(v, {ypar: b}) for b in (0, 1)]
        except KeyError as ex:
            chk.ob("C06.R1", f.qualname, f"path {pl}: v", False, f"v = {show(v)[:120]} depends on more than the parity of y", f.where)
            continue
        v_ok = sorted(vs) == [27, 28]
        flip_v = vs[0] - 27
        # ---- s: equation and flip
        inv_pairs = {}
        sp = to_poly(s_out, N, names, inv_pairs)
        ref = Poly.var("z", N) + Poly.var("r", N) * Poly.var("d", N)
        sk = cancel_inverses(sp * Poly.var("k", N), inv_pairs)
        if (sk - ref).is_zero():
            flip_s = 0
        elif (sk + ref).is_zero():
            flip_s = 1
        else:
            flip_s = None
        chk.ob("C06.R2", f.qualname, f"path {pl}: s·k ≡ ±(z + r·d)", flip_s is not None and r is rx,
               f"s·k ≡ {sk!r}; r is x(k·G): {r is rx}", f.where)
        # ---- s range
        s_core = s_out.args[1] if (isinstance(s_out, Term) and s_out.op == "sub" and s_out.args[0] == N) else s_out
        reduced = isinstance(s_core, Term) and s_core.op == "mod" and s_core.args[1] == N
        lo, hi = linear_bounds(facts, s_core)
        if reduced:
            lo, hi = max(lo, 0), min(hi, N - 1)
        if s_core is not s_out:
            lo, hi = N - hi, N - lo
        s_ok = hi <= (N - 1) // 2
        chk.ob("C06.R1", f.qualname, f"path {pl}: v ∈ {{27,28}}, s ≤ (N−1)/2", v_ok and s_ok,
               f"v takes {vs} over the parity of y; s range upper bound {'(N-1)/2' if hi == (N - 1) // 2 else hi if hi != INF else '+inf'}", f.where)
        # ---- round trip in the formal group: Q = r^-1 (s'·(±R) − z·G), R = k·G
        if flip_s is None:
            continue
        sigma = 1 if flip_v == 0 else -1
        invr = Poly.var("inv(r)", N)
        ip = dict(inv_pairs)
        ip["inv(r)"] = Poly.var("r", N)
        q = cancel_inverses(cancel_inverses(invr * (sp * Poly.const(sigma, N) * Poly.var("k", N) - Poly.var("z", N)), ip), ip)
        okq = (q - Poly.var("d", N)).is_zero()
        # the other v selects −R: must not give d
        q2 = cancel_inverses(cancel_inverses(invr * (sp * Poly.const(-sigma, N) * Poly.var("k", N) - Poly.var("z", N)), ip), ip)
        chk.ob("C06.R4", f.qualname, f"path {pl}: recover(sign) = d·G, other v ≠ d·G", okq and not (q2 - Poly.var("d", N)).is_zero(),
               f"recovered scalar {q!r} (v flip {flip_v}, s flip {flip_s}); with the other v: {q2!r}", f.where)
    # ---- R4 (recover side): the obligations of C19 that the round trip relies on, re-stated here
    from . import C19
    from ..report import SubCheck
    sub = SubCheck()
    err = None
    try:
        C19.run(sub, repo, tier)
    except AnalysisError as e:
        err = e
    for rule, construct, key, ok, detail, where in sub.obs:
        chk.ob("C06.R4", construct, f"recover side [{rule}] {key}", ok, detail, where)
    if err is not None and all(o[3] for o in sub.obs):
        raise err
    # the scalar multiplications of sign and recover take arbitrary integers (N − z, unreduced hashes): C18.R1/R2 re-stated
    from . import C18
    sub = SubCheck()
    err = None
    try:
        C18.run(sub, repo, tier)
    except AnalysisError as e:
        err = e
    for rule, construct, key, ok, detail, where in sub.obs:
        if rule in ("C18.R1", "C18.R2"):
            chk.ob("C06.R4", construct, f"group law [{rule}] {key}", ok, detail, where)
    if err is not None and all(o[3] for o in sub.obs):
        raise err
    # ---- R3 nonce term
    b2i = check_bytes_to_int(chk, "C06.R3", repo, w)
    it = Interp(w, summaries={b2i.qualname: s_b2i})
    got = it.call_func(gk, [h, priv], {})
    want = Term("os2ip", (rfc.rfc6979_k(priv, h, HashFn("sha256")),), "int")
    chk.ob("C06.R3", gk.qualname, "OS2IP(HMAC-DRBG output) per RFC 6979 §3.2 b–h", got is want,
           f"got {show(got)[:400]}; want {show(want)[:400]}", gk.where)
    zc = [p for p in paths if p.outcome == "return"]
    chk.ob("C06.R3", f.qualname, "z = OS2IP(msghash), d = OS2IP(priv) (big-endian)", bool(zc), "", f.where)


MANIFEST = {
    "level": "other",
    "technique": "static analysis: path enumeration with range facts (v set, low-s bound), polynomial identity over F_N for the "
                 "signing equation, term comparison of the nonce routine with RFC 6979, formal-group evaluation of sign∘recover",
    "text": "Decides for all keys and hashes: v ∈ {27,28} and s ≤ (N−1)/2 on both paths, the v flip and the s flip are controlled "
            "consistently (sign∘recover = d·G in the formal group, the other v does not), s·k ≡ z + r·d, and the nonce is the "
            "RFC 6979 HMAC-SHA256 chain on key‖hash. The 2^-128 events r ≥ N, s = 0, k = 0 are not decided (listed).",
    "note": "Layered on C18 (group law), C19 (recover), C08.R4 (inverse). hmac/hashlib trusted.",
}
