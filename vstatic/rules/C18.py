"""C18 — secp256k1 point arithmetic is the textbook group law."""
from __future__ import annotations

from ..term import AnalysisError, Term, var, show
from ..interp import World, Interp, enumerate_paths, Fold
from ..scalarmul import check_multiply_schema
from ..secp_model import secp_jacobian_obligations, SECP
from ..spec import params as SP
from ..nt import is_prime, PrimeField, Curve


def opaque(op, sort="point"):
    def s(it, f, args, kwargs, node):
        from ..interp import _hashable
        return Term(op, tuple(_hashable(a) for a in args), sort)
    return s


def check_bytes_to_int(chk, rule, repo, w):
    f = repo.func(f"{SECP}.bytes_to_int")
    x = var("x", "bytes")
    it = Interp(w)
    r = it.call_func(f, [x], {})
    ok = False
    det = show(r)[:200]
    if isinstance(r, Fold):
        e = Term("elem", (x,), "int")
        b = r.body
        shapes = [Term("add", (Term("lshift", (r.acc, 8), "int"), e), "int"),
                  Term("add", (Term("mul", (r.acc, 256), "int"), e), "int"),
                  Term("or", (Term("lshift", (r.acc, 8), "int"), e), "int")]
        ok = r.init == 0 and any(b is s for s in shapes) and r.seq is x
        det = f"init {r.init!r}, step {show(b)}"
    chk.ob(rule, f.qualname, "big-endian OS2IP: o = 0; o = (o << 8) + byte over all bytes", ok, det, f.where)
    return f


def run(chk, repo, tier):
    chk.explanation = ("Jacobian routines are checked against the affine law as polynomial identities (shared with C13); "
                       "jacobian_multiply is checked path by path against (n mod N)·P under the induction hypothesis for its "
                       "recursive calls, with termination obligations; wrappers and constants are compared with SEC 2 and "
                       "validated with the checker's own arithmetic.")
    chk.rule("C18.R1", "jacobian_double/add/to/from equal the affine law on every path (identity encodings included)", 12)
    chk.rule("C18.R2", "jacobian_multiply returns (n mod N)·P for every integer n on every path; recursion terminates; final raise dead", 9)
    chk.rule("C18.R3", "add/multiply/privtopub are from_jacobian∘op∘to_jacobian; P, N, A, B, G equal SEC 2; G on curve; N prime; N·G = O", 10)
    chk.rule("C18.R4", "associativity of the affine table on the codimension-one strata (the generic stratum is C07.R6, thorough tier)", 6)
    chk.not_decided += ["associativity on the lower-dimensional strata not listed under C18.R4 / C07.R6"]
    chk.assumptions += ["no point of order 2 on secp256k1 (odd prime group order; N·G = O and Hasse bound are checked)"]
    w = World(repo)
    secp_jacobian_obligations(chk, "C18.R1", repo, w)
    it0 = Interp(w)
    m = repo.module(SECP)
    consts = {n: it0.eval_global(m, n) for n in ("P", "N", "A", "B", "Gx", "Gy", "G")}
    N = consts["N"]
    f = repo.func(f"{SECP}.jacobian_multiply")
    res, npaths = check_multiply_schema(w, f, N, double_q=f"{SECP}.jacobian_double", add_q=f"{SECP}.jacobian_add")
    for key, ok, det in res:
        chk.ob("C18.R2", f.qualname, key, ok, det, f.where)
    # ---- wrappers as terms
    summ = {f"{SECP}.to_jacobian": opaque("to_jacobian"), f"{SECP}.from_jacobian": opaque("from_jacobian"),
            f"{SECP}.jacobian_multiply": opaque("jacobian_multiply"), f"{SECP}.jacobian_add": opaque("jacobian_add"),
            f"{SECP}.bytes_to_int": opaque("os2ip", "int")}
    for q in summ:
        repo.func(q)
    a, b, n = var("a", "point"), var("b", "point"), var("n", "int")
    it = Interp(w, summaries=summ)
    T = lambda op, *args, sort="point": Term(op, args, sort)
    pending = []

    def wrapper(fn, args):
        """value of a wrapper on symbolic arguments; a wrapper that branches on its arguments, recurses or uses constructs
        outside the fragment is *not* the stated composition"""
        from ..interp import enumerate_paths
        try:
            ps = enumerate_paths(w, lambda it2: it2.call_func(repo.func(f"{SECP}.{fn}"), list(args), {}), summaries=summ, max_paths=40)
        except RecursionError as ex:
            return Term("not_a_composition", ("the wrapper recurses without bound",), "point")
        except AnalysisError as ex:
            # outside the fragment (a different multiplication routine, a table, a loop): undecided, not a violation
            pending.append(AnalysisError(f"{SECP}.{fn}: {ex}"))
            return Term("undecided", (str(ex)[:160],), "point")
        if len(ps) != 1 or ps[0].outcome != "return":
            return Term("not_a_composition", (f"{len(ps)} paths: the wrapper branches on its arguments "
                                              f"({'; '.join(' '.join(p_.branch_lines()) for p_ in ps[:3])})"[:200],), "point")
        return ps[0].value
    def decided(r):
        return not (isinstance(r, Term) and r.op == "undecided")
    r = wrapper("multiply", [a, n])
    if decided(r):
        chk.ob("C18.R3", f"{SECP}.multiply", "from_jacobian(jacobian_multiply(to_jacobian(a), n))",
               r is T("from_jacobian", T("jacobian_multiply", T("to_jacobian", a), n)), f"got {show(r)}", repo.func(f"{SECP}.multiply").where)
    r = wrapper("add", [a, b])
    if decided(r):
        chk.ob("C18.R3", f"{SECP}.add", "from_jacobian(jacobian_add(to_jacobian(a), to_jacobian(b)))",
               r is T("from_jacobian", T("jacobian_add", T("to_jacobian", a), T("to_jacobian", b))), f"got {show(r)}", repo.func(f"{SECP}.add").where)
    k = var("privkey", "bytes")
    r = wrapper("privtopub", [k])
    Gt = (consts["Gx"], consts["Gy"])
    want = T("from_jacobian", T("jacobian_multiply", T("to_jacobian", Gt), T("os2ip", k, sort="int")))
    if decided(r):
        chk.ob("C18.R3", f"{SECP}.privtopub", "multiply(G, OS2IP(privkey)), G = (Gx, Gy)", r is want and consts["G"] == Gt,
               f"got {show(r)[:200]}", repo.func(f"{SECP}.privtopub").where)
    check_bytes_to_int(chk, "C18.R3", repo, w)
    # ---- constants
    lit = {"P": SP.SECP_P, "N": SP.SECP_N, "A": SP.SECP_A, "B": SP.SECP_B, "Gx": SP.SECP_GX, "Gy": SP.SECP_GY}
    for nme, v in lit.items():
        chk.ob("C18.R3", f"{SECP}.{nme}", "equals SEC 2 §2.4.1", consts[nme] == v, f"folded {consts[nme]!r}"[:120], "py_ecc/secp256k1/secp256k1.py")
    Pm = SP.SECP_P
    F = PrimeField(Pm)
    E = Curve(F, SP.SECP_A, SP.SECP_B)
    G = (SP.SECP_GX, SP.SECP_GY)
    facts = {"P prime": is_prime(Pm), "N prime": is_prime(SP.SECP_N), "P ≡ 3 (mod 4)": Pm % 4 == 3,
             "G on curve": E.on_curve(G), "N·G = O": E.mul(G, SP.SECP_N) is None,
             "Hasse: (N - P - 1)^2 <= 4P, so with N prime and N·G = O the group order is N": (SP.SECP_N - Pm - 1) ** 2 <= 4 * Pm}
    for kf, v in facts.items():
        chk.ob("C18.R3", SECP, kf, v, "checker's own arithmetic on the SEC 2 literals", "vstatic/spec/params.py")
    from ..assoc import obligations as assoc_obligations
    for name, ok, det in assoc_obligations("quick"):
        chk.ob("C18.R4", "vstatic.curvelaw (affine table)", name, ok, det, "vstatic/curvelaw.py")
    if pending:
        failed = any(not o["ok"] for o in getattr(chk, "obligations", [])) or any(not o[3] for o in getattr(chk, "obs", []))
        if not failed:
            raise pending[0]


MANIFEST = {
    "level": "other",
    "technique": "static analysis: polynomial-identity checking of the Jacobian formulas per path, inductive schema check of the "
                 "recursive double-and-add with termination obligations, term comparison of wrappers, constant folding vs SEC 2",
    "text": "Decides for all points and all integers n: Jacobian add/double/conversion equal the affine law per path (formal "
            "identities), jacobian_multiply returns (n mod N)·P on each path under the induction hypothesis with a decreasing "
            "measure (negative and oversized n are reduced exactly once), the wrappers are the stated compositions, "
            "bytes_to_int is big-endian OS2IP, and the constants are SEC 2's (G on curve, N prime, N·G = O, Hasse). "
            "Associativity: codimension-one strata of the affine table here, generic stratum in C07.R6 (thorough).",
    "note": "Trusted: evaluator model; checker's polynomial and modular arithmetic; SEC 2 literals in vstatic/spec/params.py.",
}
