"""C09 — outputs are the IETF byte strings (identifiers and output terms)."""
from __future__ import annotations

from ..term import AnalysisError, Term, var, show, t_concat
from ..interp import Interp, _hashable
from ..bls_model import Model, SUITES, CS, hp, resolve
from ..spec.params import IETF_TAGS, BLS_G1, BLS
from .C02 import tags_of
from .C03 import fold_shape


def run(chk, repo, tier):
    chk.explanation = ("The folded suite tags are compared with the draft's identifiers; the terms returned by SkToPk, Sign, "
                       "PopProve and Aggregate (curve/compression functions opaque) are compared with the draft's CoreSign / "
                       "SkToPk / PopProve / Aggregate written as terms; the byte encoders are reduced to I2OSP terms.")
    chk.rule("C09.R1", "suite identifiers equal draft-irtf-cfrg-bls-signature-04 §4.2; hash is SHA-256", 4 + 3)
    chk.rule("C09.R2", "output terms of SkToPk / Sign / PopProve / Aggregate and the two byte encoders equal the draft's", 2 + 3 + 3 + 1 + 3)
    chk.rule("C09.R3", "hash_to_G2 — the one component of the output terms that is itself specified byte for byte (RFC 9380 suite "
                       "BLS12381G2_XMD:SHA-256_SSWU_RO_) — is as C10 requires: C10's obligations for the G2 suite re-stated", 40)
    chk.not_decided += ["numerical value of the terms: that compress/multiply compute what they denote (C11, C07)"]
    chk.depends_on += ["C07", "C10", "C11"]
    from . import C10
    from ..report import SubCheck
    sub = SubCheck()
    err = None
    try:
        C10.run(sub, repo, tier)
    except AnalysisError as e:
        err = e
    g1_only = ("swu_G1", "sqrt_division_FQ.", "ISO_11", "iso_map_G1", "hash_to_G1", "G1 ω", "G1:", "hash_to_field_FQ.", "optimized_bls12_381_FQ.")
    for rule, construct, key, ok, detail, where in sub.obs:
        tag = f"{construct}.{key}."
        if any(t in tag for t in g1_only) or construct.endswith("sqrt_division_FQ") or construct.endswith("hash_to_field_FQ"):
            continue          # the G1 suite is not used by the signature ciphersuites
        chk.ob("C09.R3", construct, f"hash_to_G2 [{rule}] {key}", ok, detail, where)
    if err is not None and all(o[3] for o in sub.obs):
        raise err
    # the two point encoders whose words SkToPk / Sign / PopProve / Aggregate emit: C11's encoder obligations re-stated
    chk.rule("C09.R4", "compress_G1 / compress_G2 — the words the output byte strings are made of — are the ZCash encoding "
                       "(C11.R3's encoder obligations re-stated)", 6)
    from . import C11
    sub11 = SubCheck()
    err11 = None
    try:
        C11.run(sub11, repo, tier)
    except AnalysisError as e:
        err11 = e
    for rule, construct, key, ok, detail, where in sub11.obs:
        if rule == "C11.R3" and construct.rsplit(".", 1)[-1] in ("compress_G1", "compress_G2"):
            chk.ob("C09.R4", construct, f"[{rule}] {key}", ok, detail, where)
    if err11 is not None and all(o[3] for o in sub11.obs):
        raise err11
    M = Model(repo, "P")
    it = Interp(M.world)
    tags = tags_of(M, repo)
    for (suite, nm), v in tags.items():
        want = IETF_TAGS[f"{suite}.{nm}"]
        chk.ob("C09.R1", f"{CS}.{suite}.{nm}", "identifier equals the draft's", v == want, f"folded {v!r}, draft {want!r}",
               "py_ecc/bls/ciphersuites.py")
    for suite in SUITES:
        h = it.class_attr(M.suite(suite), "xmd_hash_function")
        chk.ob("C09.R1", f"{CS}.{suite}.xmd_hash_function", "hash is hashlib.sha256", repr(h) == "sha256", f"resolved to {h!r}",
               "py_ecc/bls/ciphersuites.py")
    # ---- byte encoders as I2OSP terms
    G2P = "py_ecc.bls.g2_primitives"
    z, z1, z2 = var("z", "int"), var("z1", "int"), var("z2", "int")
    c1 = resolve(repo, G2P, "compress_G1")
    c2 = resolve(repo, G2P, "compress_G2")
    itx = Interp(M.world, summaries={c1.qualname: lambda *a: z, c2.qualname: lambda *a: (z1, z2)})
    r1 = itx.call_func(M.anchors["G1_to_pubkey"], [var("pt", "point")], {})
    r2 = itx.call_func(M.anchors["G2_to_signature"], [var("pt", "point")], {})
    w1 = Term("i2osp", (z, 48), "bytes")
    w2 = t_concat([Term("i2osp", (z1, 48), "bytes"), Term("i2osp", (z2, 48), "bytes")])
    chk.ob("C09.R2", M.anchors["G1_to_pubkey"].qualname, "I2OSP(compress_G1(P), 48)", r1 is w1, f"got {show(r1)}", M.anchors["G1_to_pubkey"].where)
    chk.ob("C09.R2", M.anchors["G2_to_signature"].qualname, "I2OSP(z1,48) ‖ I2OSP(z2,48), (z1,z2) = compress_G2(P)", r2 is w2,
           f"got {show(r2)}", M.anchors["G2_to_signature"].where)
    # ---- generator
    G1 = it.eval_global(repo.module(CS), "G1")
    G1c = hp(G1)
    gen_ok = (G1[0].v, G1[1].v, G1[2].v) == (BLS_G1[0], BLS_G1[1], 1) and G1[0].p == BLS["p"]
    SK = var("SK", "int")
    msg = M.sym_bytes("message")
    for suite in SUITES:
        paths, m = M.paths(suite, "SkToPk", [SK])
        rets = [p.value for p in paths if p.outcome == "return"]
        want_pk = Term("G1_to_pubkey", (Term("multiply", (G1c, SK), "point"),), "bytes")
        chk.ob("C09.R2", f"{CS}.{suite}.SkToPk", "G1_to_pubkey(SK · G1), G1 the standard generator",
               len(rets) == 1 and rets[0] is want_pk and gen_ok,
               f"got {[show(r)[:200] for r in rets]}; generator standard: {gen_ok}", m.where)
        paths, m = M.paths(suite, "Sign", [SK, msg])
        rets = [p.value for p in paths if p.outcome == "return"]
        mm = t_concat([want_pk, msg]) if suite == "G2MessageAugmentation" else msg
        dst = IETF_TAGS[f"{suite}.DST"]
        from ..interp import HashFn
        want = Term("G2_to_signature", (Term("multiply", (Term("hash_to_G2", (mm, dst, HashFn("sha256")), "point"), SK), "point"),), "bytes")
        chk.ob("C09.R2", f"{CS}.{suite}.Sign", "G2_to_signature(SK · hash_to_G2(m', DST, sha256))",
               len(rets) == 1 and rets[0] is want, f"got {[show(r)[:300] for r in rets]}; want {show(want)[:300]}", m.where)
        sigs = M.sym_seq("signatures")
        paths, m = M.paths(suite, "Aggregate", [sigs])
        rets = [p.value for p in paths if p.outcome == "return"]
        ok, why = (False, "no returning path")
        for r in rets:
            ok, why = fold_shape(_hashable(r), "G2_to_signature", "signature_to_G2", "signatures")
            if not ok:
                break
        chk.ob("C09.R2", f"{CS}.{suite}.Aggregate", "G2_to_signature(Σ signature_to_G2(s_i))", ok, why, m.where)
    paths, m = M.paths("G2ProofOfPossession", "PopProve", [SK])
    rets = [p.value for p in paths if p.outcome == "return"]
    want_pk = Term("G1_to_pubkey", (Term("multiply", (G1c, SK), "point"),), "bytes")
    from ..interp import HashFn
    want = Term("G2_to_signature", (Term("multiply", (Term("hash_to_G2", (want_pk, IETF_TAGS["G2ProofOfPossession.POP_TAG"], HashFn("sha256")), "point"), SK), "point"),), "bytes")
    chk.ob("C09.R2", f"{CS}.G2ProofOfPossession.PopProve", "G2_to_signature(SK · hash_to_G2(PK, POP_TAG, sha256))",
           len(rets) == 1 and rets[0] is want, f"got {[show(r)[:300] for r in rets]}", m.where)


MANIFEST = {
    "level": "other",
    "technique": "static analysis: constant folding of the suite identifiers through the class hierarchy and term (value-"
                 "numbering) comparison of the API outputs with the IETF draft written as terms",
    "text": "Decides that the four tags are the draft's identifiers, the hash is SHA-256, the generator is the standard one, and "
            "that SkToPk/Sign/PopProve/Aggregate return exactly the draft's terms (including symmetric changes on the signing and "
            "verifying side that every round-trip test misses). Numerical correctness of the opaque functions is other "
            "properties' business (listed).",
    "note": "Oracle: four literal identifiers and the standard generator in vstatic/spec/params.py. Conditional on C07, C10, C11.",
}
