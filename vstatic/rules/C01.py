"""C01 — honest signatures verify; bad secret keys refused; KeyGen in range."""
from __future__ import annotations

from ..term import AnalysisError, Term, var, show, atom_of
from ..interp import havoc_while, Interp
from ..bls_model import Model, SUITES, CS, hp
from ..bls_rules import predicate_accept_set, has_fact
from ..ranges import interval_of_facts, show_set, INF
from ..bilinear import Bilinear, accepting_equation
from ..spec.params import BLS
from ..nt import is_prime

VALIDATION_ERROR = "eth_utils.ValidationError"


def sign_entries(suite):
    e = [("SkToPk", ["SK"]), ("Sign", ["SK", "message"])]
    if suite == "G2ProofOfPossession":
        e.append(("PopProve", ["SK"]))
    return e


def run(chk, repo, tier):
    r = BLS["r"]
    chk.explanation = ("Signing-side entry points are evaluated abstractly on an untyped symbolic secret key; the scalar "
                       "range at every scalar multiplication is computed from the path facts; the accepted set of the key "
                       "predicate and the range of KeyGen's result are computed exactly; Verify is then evaluated on the "
                       "*terms* returned by SkToPk/Sign and the compared pairing exponent is shown to be the zero polynomial.")
    chk.rule("C01.R1", "every scalar multiplication by a caller-supplied secret key is dominated by type=int and 1<=SK<=r-1; "
                       "rejection raises ValidationError", 7)
    chk.rule("C01.R2", "_is_valid_privkey accepts exactly the ints in [1, r-1], r the BLS12-381 group order derived from x", 3)
    chk.rule("C01.R3", "KeyGen returns an int in [1, r-1] on every path", 3)
    chk.rule("C01.R4", "Sign/Verify (PopProve/PopVerify) hash the same (message term, tag, hash function)", 4)
    chk.rule("C01.R6", "Verify/PopVerify reject an honestly produced (PK, message, signature) only on paths guarded by a failed "
                       "validation predicate (decode, identity, subgroup, on-curve) — no rejection depends on the message or on "
                       "anything else", 4)
    chk.rule("C01.R7", "every message can be hashed: hash_to_G2 refuses nothing but over-long tags and never reaches its failure arm "
                       "(the totality obligations of C10 / C15 re-stated)", 5)
    chk.rule("C01.R5", "the exponent compared with one vanishes identically for honestly produced signatures (formal bilinear domain)", 4)
    chk.not_decided += ["bilinearity of the pairing (C05) — R5 is conditional on it",
                        "that multiply / compression / hash_to_G2 compute what their terms denote (C07, C11, C10)",
                        "round trip decode(encode(P)) = P is used as a rewrite in R4/R5 (C11)"]
    chk.depends_on += ["C05", "C07", "C10", "C11"]
    if not is_prime(r):
        raise AnalysisError("oracle r not prime")
    # the rewrite decode(encode(P)) = P used by R4/R5: the encoder and decoder obligations of C11 re-stated (an honest key or
    # signature that does not decode to the point it encodes is rejected by Verify)
    chk.rule("C01.R9", "SkToPk = [SK]G1 and Sign = [SK]H(m) are scalar multiplications: the group law and the multiply ladder of the "
                       "optimized BLS12-381 module (C07.R2, C07.R3) re-stated", 10)
    from . import C07 as _dep_C07
    from ..report import restate as _restate
    _restate(chk, "C01.R9", _dep_C07, repo, lambda r, c: r in ("C07.R2", "C07.R3") and "optimized_bls12_381" in c)
    chk.rule("C01.R8", "decode(encode(P)) = P for the keys and signatures the ciphersuites produce: C11's decoder tables, sign "
                       "selection and encoder obligations re-stated", 40)
    from . import C11 as _dep_C11
    from ..report import SubCheck as _SubCheck
    _sub = _SubCheck()
    _err = None
    try:
        _dep_C11.run(_sub, repo, tier)
    except AnalysisError as _e:
        _err = _e
    _known = {(f["rule"], f["construct"], f["key"]) for f in chk.known.get("findings", []) if f["property"] == "C11"}
    for _rule, _construct, _key, _ok, _detail, _where in _sub.obs:
        if (_rule, _construct, _key) not in _known:
            chk.ob("C01.R8", _construct, f"[{_rule}] {_key}", _ok, _detail, _where)
    if _err is not None and all(o[3] for o in _sub.obs):
        raise _err
    M = Model(repo, "P")
    names = {r: "r", 0: "0"}
    # ------------------------------------------------------------------ R1
    for suite in SUITES:
        for entry, params in sign_entries(suite):
            SK = var("SK", "any")
            args = [SK] + [M.sym_bytes(p) for p in params[1:]]
            paths, m = M.paths(suite, entry, args)
            construct = f"{CS}.{suite}.{entry}"
            bad = {}
            nsinks = 0
            for p in paths:
                for ev in p.events:
                    if ev["kind"] != "scalar_mul":
                        continue
                    if ev["scalar"] is not SK:
                        from ..term import subterms
                        if isinstance(ev["scalar"], Term) and any(t is SK for t in subterms(ev["scalar"])):
                            nsinks += 1
                            bad.setdefault(ev["where"], (f"the scalar is {show(ev['scalar'])[:60]}, a conversion of the caller's key: keys of "
                                                         "non-integer type are coerced instead of refused", p))
                        continue
                    nsinks += 1
                    facts = [(a, t) for a, t in ev["facts"].items()]
                    lo, hi, holes, others = interval_of_facts(facts, SK)
                    typed = has_fact(ev["facts"], Term("isinstance", (SK, "int"), "bool"), True)
                    if not (typed and lo >= 1 and hi <= r - 1):
                        bad.setdefault(ev["where"], (f"SK range at this use is {show_set([(lo, hi)], names)}, int-typed: {typed}", p))
                if p.outcome == "raise":
                    if p.value.clsname() != VALIDATION_ERROR:
                        bad.setdefault("raise:" + p.value.clsname(), (f"{p.value.clsname()} raised at {p.value.where} instead of ValidationError", p))
                else:
                    # a returning path must have used the key under the gate
                    if not any(ev["kind"] == "scalar_mul" for ev in p.events):
                        bad.setdefault("return-without-use", (f"returns {show(p.value)[:100]} without using the key", p))
            if nsinks == 0:
                raise AnalysisError(f"{construct}: no scalar multiplication by the secret key found")
            if not bad:
                chk.ob("C01.R1", construct, "scalar gate", True, f"{nsinks} sink evaluations on {len(paths)} paths", m.where)
            for k, (msg, p) in bad.items():
                chk.ob("C01.R1", construct, f"ungated/ill-rejected key use [{k.split('(')[-1]}", False,
                       f"{msg}; path {' '.join(p.branch_lines()[-6:])}", k)
    # ------------------------------------------------------------------ R2
    for suite in SUITES:
        res = predicate_accept_set(M, suite, "_is_valid_privkey", "int")
        ok = res["accept"] == [(1, r - 1)] and res["type_required"] and not res["problems"]
        chk.ob("C01.R2", res["qual"] + f"[{suite}]", "accepted set == [1, r-1] ∩ int", ok,
               f"accepted {show_set(res['accept'], names)}, int-type required: {res['type_required']}"
               + ("; " + "; ".join(res["problems"]) if res["problems"] else ""), res["where"])
    # ------------------------------------------------------------------ R3
    for suite in SUITES:
        kg = M.method(M.suite(suite), "KeyGen")
        paths, m = M.paths(suite, "KeyGen", [M.sym_bytes("IKM"), M.sym_bytes("key_info")],
                           while_hooks={kg.qualname: havoc_while})
        construct = f"{CS}.{suite}.KeyGen"
        for p in paths:
            if p.outcome != "return":
                chk.ob("C01.R3", construct, "KeyGen raises", False, f"{p.value.clsname()} at {p.value.where}", m.where)
                continue
            v = p.value
            lo, hi = -INF, INF
            if isinstance(v, int) and not isinstance(v, bool):
                lo = hi = v
            elif isinstance(v, Term) and v.op == "mod" and isinstance(v.args[1], int) and v.args[1] > 0 \
                    and isinstance(v.args[0], (Term, int)) and (not isinstance(v.args[0], Term) or v.args[0].sort == "int"):
                lo, hi = 0, v.args[1] - 1
            facts = [(a, t) for a, t, _ in p.facts]
            flo, fhi, holes, _ = interval_of_facts(facts, v) if isinstance(v, Term) else (-INF, INF, [], [])
            lo, hi = max(lo, flo), min(hi, fhi)
            if lo in holes:
                lo += 1
            if hi in holes:
                hi -= 1
            ok = lo >= 1 and hi <= r - 1
            chk.ob("C01.R3", construct, "result range ⊆ [1, r-1]", ok,
                   f"returned {show(v)[:120]} has range {show_set([(lo, hi)], names)}", m.where)
    # ------------------------------------------------------------------ R4 / R5
    it0 = Interp(M.world)
    G1c = hp(it0.eval_global(repo.module(CS), "G1"))
    for suite in SUITES:
        pairs = [("Sign", "Verify")]
        if suite == "G2ProofOfPossession":
            pairs.append(("PopProve", "PopVerify"))
        for sgn, ver in pairs:
            SK = var("SK", "int")
            msg = M.sym_bytes("message")
            construct = f"{CS}.{suite}.{sgn}/{ver}"
            pk_paths, _ = M.paths(suite, "SkToPk", [SK])
            pk_terms = [p.value for p in pk_paths if p.outcome == "return"]
            s_paths, ms = M.paths(suite, sgn, [SK] + ([msg] if sgn == "Sign" else []))
            s_ret = [p for p in s_paths if p.outcome == "return"]
            if len(pk_terms) != 1 or len(s_ret) != 1:
                chk.ob("C01.R4", construct, "single honest path", False,
                       f"{len(pk_terms)} SkToPk / {len(s_ret)} {sgn} returning paths", ms.where)
                continue
            PK, SIG = pk_terms[0], s_ret[0].value
            sign_h = [ev for ev in s_ret[0].events if ev["kind"] == "hash_to_G2"]
            vargs = [PK, msg, SIG] if ver == "Verify" else [PK, SIG]
            v_paths, mv = M.paths(suite, ver, vargs)
            acc = [p for p in v_paths if p.outcome == "return" and p.value is not False]
            esc = [p for p in v_paths if p.outcome == "raise"]
            if esc:
                chk.ob("C01.R4", construct, "verify raises on honest input", False,
                       f"{esc[0].value.clsname()} at {esc[0].value.where}", mv.where)
            # R6: every rejecting path must be justified by a validation predicate that is false only for dishonest input
            spurious = []
            for p in v_paths:
                if p.outcome == "return" and p.value is False:
                    just = [a for a, t, _ in p.facts if isinstance(a, Term) and (
                        (a.op == "is_inf" and t) or
                        (a.op in ("subgroup_check", "pairing_args_on_curve") and not t) or
                        (a.op.startswith("decodes_") and not t))]
                    if not just:
                        spurious.append(p)
            chk.ob("C01.R6", construct, "no rejection of honest input other than through a validation predicate of the key / signature points",
                   not spurious, "; ".join(f"returns False on path {' '.join(p.branch_lines()[-3:])} with facts "
                                           f"{[(show(a)[:60], t) for a, t, _ in p.facts][-2:]}" for p in spurious[:2])
                   or f"{len(v_paths)} verify paths", mv.where)
            if not acc:
                chk.ob("C01.R4", construct, "honest signature has an accepting path", False,
                       "Verify has no accepting path on the terms produced by SkToPk/" + sgn, mv.where)
                continue
            for p in acc:
                ver_h = [ev for ev in p.events if ev["kind"] == "hash_to_G2"]
                st = {(ev["msg"], ev["dst"], ev["hfn"]) for ev in sign_h}
                vt = {(ev["msg"], ev["dst"], ev["hfn"]) for ev in ver_h}
                ok = len(st) == 1 and st == vt
                chk.ob("C01.R4", construct, "same (message term, tag, hash) on both sides", ok,
                       f"sign side {[show(x)[:160] for x in st]} / verify side {[show(x)[:160] for x in vt]}", mv.where)
                X = accepting_equation(p.value)
                if X is None:
                    chk.ob("C01.R5", construct, "accepting value is a comparison with one", False,
                           f"returns {show(p.value)[:200]}", mv.where)
                    continue
                B = Bilinear(G1c)
                e, nfe = B.gt(X)
                ok = not e and nfe == 1
                chk.ob("C01.R5", construct, "exponent ≡ 0 for honest (SK, message); one final exponentiation", ok,
                       f"residual exponent {({show(k)[:120]: repr(c) for k, c in e.items()})}, final exponentiations: {nfe}",
                       mv.where)
    # 'for every byte-string message': Sign hashes the message to the curve — hash_to_G2 must be total and the RFC's function
    from . import C10
    from ..report import SubCheck
    sub = SubCheck()
    err = None
    try:
        C10.run(sub, repo, tier)
    except AnalysisError as e:
        err = e
    for rule, construct, key, ok, detail, where in sub.obs:
        # only totality matters here: Sign and Verify share hash_to_G2, so a deviation from the RFC that both sides see alike does
        # not stop honest signatures from verifying (it is C09's / C10's business); a refusal or an escaping raise does
        if any(t in key for t in ("no other refusal", "no path raises", "accepted DST lengths", "ell > 255 refused")):
            chk.ob("C01.R7", construct, f"hash_to_G2 [{rule}] {key}", ok, detail, where)
    if err is not None and all(o[3] for o in sub.obs):
        raise err
    chk.note_analysed(suites=3, group_order_bits=r.bit_length())


MANIFEST = {
    "level": "other",
    "technique": "static analysis: abstract interpretation with an integer-range domain (exact accepted set of the key "
                 "predicate, guard dominance at scalar uses, KeyGen result range) and term/formal-bilinear comparison of the "
                 "sign and verify sides",
    "text": "Decides for every SK and message: the key predicate accepts exactly int ∩ [1, r-1] (r re-derived from the curve "
            "parameter), every use of a caller key as a scalar is dominated by it with a ValidationError rejecting edge, "
            "KeyGen's result lies in [1, r-1] on every path, Sign/Verify and PopProve/PopVerify feed identical "
            "(message, tag, hash) triples to hash_to_G2 and the verified pairing exponent is the zero polynomial for honest "
            "signatures. Bilinearity itself is not decided (listed in evidence).",
    "note": "R8 re-states C11 (decode(encode(P)) = P) for the keys and signatures the suites produce; R7 the totality obligations of C10/C15. Trusted: evaluator's model of the Python fragment; oracle r = x^4-x^2+1; conditional on C05 (bilinearity), "
            "C07/C10/C11 for the meaning of the opaque terms.",
}
