"""C02 — Verify accepts exactly the canonical signature (decided clauses:
single accepting exit, domain separation, augmentation, exponent form)."""
from __future__ import annotations

from ..term import AnalysisError, Term, var, show, t_concat
from ..interp import Interp
from ..bls_model import Model, SUITES, CS, hp
from ..bilinear import Bilinear, accepting_equation
from ..poly import Poly

VERIFY_ENTRIES = {
    "Verify": ["PK", "message", "signature"],
    "AggregateVerify": ["PKs*", "messages*", "signature"],
    "FastAggregateVerify": ["PKs*", "message", "signature"],
    "PopVerify": ["PK", "proof"],
}
POP_ONLY = {"FastAggregateVerify", "PopVerify"}


def mk(M, p):
    return M.sym_seq(p[:-1]) if p.endswith("*") else M.sym_bytes(p)


def tags_of(M, repo):
    it = Interp(M.world)
    out = {}
    for s in SUITES:
        c = M.suite(s)
        out[(s, "DST")] = it.class_attr(c, "DST")
    pop = M.suite("G2ProofOfPossession")
    out[("G2ProofOfPossession", "POP_TAG")] = it.class_attr(pop, "POP_TAG")
    return out


def expected_msg(suite, entry, M):
    """absolute shape of the hashed message term per suite/entry"""
    if entry == "PopVerify":
        return M.sym_bytes("PK")
    if entry == "Verify":
        m = M.sym_bytes("message")
        return t_concat([M.sym_bytes("PK"), m]) if suite == "G2MessageAugmentation" else m
    if entry == "AggregateVerify":
        m = Term("elem", ("messages",), "bytes")
        pk = Term("elem", ("PKs",), "bytes")
        return t_concat([pk, m]) if suite == "G2MessageAugmentation" else m
    if entry == "FastAggregateVerify":
        return M.sym_bytes("message")


def run(chk, repo, tier):
    chk.explanation = ("All paths of the verification entry points (decoders opaque) are enumerated; every return value is "
                       "classified; the tag and message terms reaching hash_to_G2 and the bilinear exponent of the compared "
                       "value are computed per suite.")
    chk.rule("C02.R6", "the canonical signature is accepted: an honestly produced (PK, message, signature) is refused only through a "
                       "failed validation predicate, for every message including the empty one (C01.R5, C01.R6 re-stated)", 4)
    from . import C01 as _dep_C01
    from ..report import restate as _restate
    _restate(chk, "C02.R6", _dep_C01, repo, lambda r, c: r in ("C01.R5", "C01.R6"))
    chk.rule("C02.R1", "the only accepting exit is `final_exponentiate(...) == FQ12.one()`; every other exit returns False", 8)
    chk.rule("C02.R2", "the four tags are non-empty and pairwise distinct; each entry point hashes under its own suite's tag "
                       "(PopVerify: POP_TAG)", 1 + 8)
    chk.rule("C02.R3", "hashed message term: bare message (basic, PoP), PK‖message (augmentation, verifying key), PK (PopVerify)", 8)
    chk.rule("C02.R4", "compared exponent is e(sig, G1)·e(H(m), PK)^-1 (accept ⇔ σ = sk·h in the formal bilinear domain)", 8)
    chk.rule("C02.R5", "the byte strings reach the point decoders unmodified: signature_to_G2(s) = decompress_G2((OS2IP(s[:48]), OS2IP(s[48:]))), "
                       "pubkey_to_G1(k) = decompress_G1(OS2IP(k)) — no bit of the candidate is masked before the canonical-form checks; signature decoder table as C11.R1", 4 + 72 + 8)
    chk.not_decided += ["the unconditional 'iff' (uniqueness needs bilinearity + non-degeneracy, C05, and canonical decoding, C11)"]
    chk.depends_on += ["C05", "C11", "C04"]
    M = Model(repo, "P")
    it0 = Interp(M.world)
    G1c = hp(it0.eval_global(repo.module(CS), "G1"))
    from .C11 import byte_helpers
    byte_helpers(chk, repo, M.world, rule="C02.R5")
    # 'exactly the canonical encoding' rests on the decoders' decision tables (C11.R1): re-stated here
    from . import C11
    from ..report import SubCheck
    sub = SubCheck()
    C11.run(sub, repo, tier)
    known = {(f["rule"], f["construct"], f["key"]) for f in chk.known.get("findings", []) if f["property"] == "C11"}
    for rule_, construct, key, ok, detail, where in sub.obs:
        if rule_ == "C11.R1" and "decompress_G2" in construct and (rule_, construct, key) not in known:
            chk.ob("C02.R5", construct, f"canonical decoding [{rule_}] {key}", ok, detail, where)
    tags = tags_of(M, repo)
    # R2a: pairwise distinct, non-empty
    vals = list(tags.items())
    prob = []
    for k, v in vals:
        if not isinstance(v, bytes) or not v:
            prob.append(f"{k[0]}.{k[1]} is empty or not bytes: {v!r}")
    for i in range(len(vals)):
        for j in range(i + 1, len(vals)):
            if vals[i][1] == vals[j][1]:
                prob.append(f"{vals[i][0][0]}.{vals[i][0][1]} == {vals[j][0][0]}.{vals[j][0][1]} ({vals[i][1]!r})")
    chk.ob("C02.R2", CS, "tags pairwise distinct and non-empty", not prob,
           "; ".join(prob) or f"{len(vals)} tags: {[v for _, v in vals]}", "py_ecc/bls/ciphersuites.py")
    for suite in SUITES:
        for entry, params in VERIFY_ENTRIES.items():
            if entry in POP_ONLY and suite != "G2ProofOfPossession":
                continue
            args = [mk(M, p) for p in params]
            paths, m = M.paths(suite, entry, args)
            construct = f"{CS}.{suite}.{entry}"
            from .C04 import _transformed_input
            tb = sorted({f"{ev['fn']}({show(ev['arg'])[:80]}) at {ev['where']}" for p in paths for ev in p.events
                         if ev["kind"] == "decode" and _transformed_input(ev["arg"])})
            chk.ob("C02.R5", construct, "the decoders receive the caller's byte strings themselves, not a slice / re-assembly of them", not tb,
                   "; ".join(tb[:2]), m.where)
            # ---- R1
            bad = {}
            acc = []
            for p in paths:
                if p.outcome != "return":
                    continue          # escapes are C04's business
                v = p.value
                if v is False:
                    continue
                X = accepting_equation(v)
                if X is None or not (isinstance(X, Term) and X.op == "final_exponentiate"):
                    bad.setdefault(show(v)[:120], p)
                else:
                    acc.append((p, X))
            chk.ob("C02.R1", construct, "accepting exits", not bad and bool(acc),
                   (f"{len(acc)} accepting paths, all of the form final_exponentiate(..) == one" if not bad and acc else
                    "no accepting path" if not bad else
                    "; ".join(f"returns {k} on path {' '.join(p.branch_lines()[-6:])}" for k, p in bad.items())), m.where)
            # ---- R2b / R3
            want_tag = tags[("G2ProofOfPossession", "POP_TAG")] if entry == "PopVerify" else tags[(suite, "DST")]
            want_msg = expected_msg(suite, entry, M)
            tagbad, msgbad = {}, {}
            nh = 0
            for p, X in acc:
                hs = [ev for ev in p.events if ev["kind"] == "hash_to_G2"]
                if not hs:
                    tagbad.setdefault("no hash_to_G2 on accepting path", p)
                for ev in hs:
                    nh += 1
                    if ev["dst"] != want_tag:
                        tagbad.setdefault(show(ev["dst"]), p)
                    if ev["msg"] is not want_msg and ev["msg"] != want_msg:
                        msgbad.setdefault(show(ev["msg"])[:160], p)
                    if repr(ev["hfn"]) != "sha256":
                        tagbad.setdefault(f"hash {ev['hfn']!r}", p)
            chk.ob("C02.R2", construct, "tag reaching hash_to_G2 is this entry point's own", not tagbad and nh > 0,
                   f"expected {want_tag!r}; got {list(tagbad) or 'it'} ({nh} evaluations)", m.where)
            chk.ob("C02.R3", construct, "hashed message term", not msgbad and nh > 0,
                   f"expected {show(want_msg)}; got {list(msgbad) or 'it'}", m.where)
            # ---- R4
            expbad = []
            for p, X in acc:
                B = Bilinear(G1c, roundtrip=False)
                try:
                    e, nfe = B.gt(X)
                except AnalysisError as ex:
                    expbad.append(str(ex))
                    continue
                pos = [(k, c) for k, c in e.items() if c == Poly.const(1)]
                neg = [(k, c) for k, c in e.items() if c == Poly.const(-1)]
                other = [(k, c) for k, c in e.items() if c not in (Poly.const(1), Poly.const(-1))]
                # exactly one factor pairs the signature with the generator, one pairs H(m) with the key, opposite signs
                sig_side = [k for k, c in e.items() if _is_sig(k[0]) and k[1] == "G1" and not k[2]]
                key_side = [k for k, c in e.items() if _is_hash(k[0]) and _is_key(k[1])
                            and k[2] == (entry == "AggregateVerify")]
                ok = (len(e) == 2 and len(sig_side) == 1 and len(key_side) == 1 and not other
                      and (e[sig_side[0]] + e[key_side[0]]).is_zero() and nfe == 1)
                if not ok:
                    expbad.append(f"exponent vector {({show(k)[:140]: repr(c) for k, c in e.items()})}, final exponentiations {nfe}")
            chk.ob("C02.R4", construct, "exponent form e(sig,G1)·e(H(m),PK)^-1", not expbad and bool(acc),
                   "; ".join(expbad[:2]) or f"{len(acc)} accepting paths", m.where)
    chk.note_analysed(tags=[v.decode() for _, v in vals if isinstance(v, bytes)])


def _untag(b):
    return b


def _is_sig(b):
    b = _untag(b)
    return isinstance(b, Term) and b.op == "signature_to_G2"


def _is_hash(b):
    b = _untag(b)
    return isinstance(b, Term) and b.op == "hash_to_G2"


def _is_key(b):
    b = _untag(b)
    return isinstance(b, Term) and b.op == "pubkey_to_G1"


MANIFEST = {
    "level": "other",
    "technique": "static analysis: path enumeration with classification of every exit, constant folding of the suite tags "
                 "through the MRO, term comparison of hashed message/tag, formal bilinear exponent of the compared value",
    "text": "Decides the structural necessary conditions of 'Verify accepts exactly the canonical signature': a single accepting "
            "exit that is the pairing comparison, pairwise-distinct non-empty tags each used by its own entry point, the "
            "augmentation prefix with the verifying key, and the exponent form σ − sk·h. The 'iff' itself needs bilinearity and "
            "non-degeneracy (not decided).",
    "note": "Conditional on C05 (pairing), C11 (canonical decoding), C04 (gates). Trusted: evaluator model.",
}
