"""C13 — projective / Jacobian formulas equal the affine law on every control
path (formal identities; the whole property)."""
from __future__ import annotations

from ..term import AnalysisError
from ..interp import World, Interp
from ..poly import Poly, Rat
from ..ecalg import FieldSym, FieldSymClass, PolyCond
from ..curvelaw import (Rep, check_function, cases_add, cases_double, cases_neg, cases_eq, cases_on_curve,
                        cases_normalize, cases_isinf, cases_line)

LEVEL = "proof"
OPT_CURVES = ["py_ecc.optimized_bn128.optimized_curve", "py_ecc.optimized_bls12_381.optimized_curve"]
OPT_PAIRINGS = ["py_ecc.optimized_bn128.optimized_pairing", "py_ecc.optimized_bls12_381.optimized_pairing"]
SECP = "py_ecc.secp256k1.secp256k1"
ONE = [("finite",), ("inf",)]
TWO = [("finite", "finite"), ("finite", "inf"), ("inf", "finite"), ("inf", "inf")]


def record(chk, rule, f, obs, npaths, extra=""):
    for o in obs:
        chk.ob(rule, f.qualname, f"{o.combo} | {o.case}", o.ok, o.detail + extra, f.where)
    return npaths


def run(chk, repo, tier):
    chk.explanation = ("Each subject function is walked by the abstract evaluator with fully symbolic coordinates per "
                       "representation class (finite / identity); every control path's branch conditions become polynomial "
                       "(in)equations, equalities are eliminated by substitution; for every (path, affine case) pair that is "
                       "consistent the returned representative's affine image is compared with the textbook chord-and-tangent "
                       "result as rational functions (cross-multiplied polynomial = 0 over Z, hence in every characteristic > 3).")
    chk.rule("C13.R1", "optimized curve modules: add/double/neg/normalize return a representative of the affine result on every "
                       "(path, case); every affine case is handled by some path; finite results have Z provably non-zero", 2 * 12)
    chk.rule("C13.R2", "optimized curve modules: eq / is_on_curve / is_inf are equivalent to the affine predicates in every class combination", 2 * 10)
    chk.rule("C13.R3", "optimized pairing modules: linefunc numerator/denominator equals the affine line function on every path", 2 * 3)
    chk.rule("C13.R4", "secp256k1 Jacobian double/add/to/from: affine images equal the affine law; identity is (0,0,*); "
                       "integer comparisons are on reduced values", 12)
    chk.rule("C13.R5", "the comparisons the formulas dispatch on are exact: == on the optimized extension-field classes holds iff all "
                       "coefficients are equal; == with an int is refused or exact (C08's equality obligations re-stated)", 8)
    chk.trusted = ["python ast", "the evaluator's model of the Python fragment", "the checker's polynomial arithmetic (vstatic/poly.py)",
                   "the affine chord-and-tangent table in vstatic/curvelaw.py",
                   "field operators are ring operations (C08) — the identities are over Z[coordinates]"]
    chk.assumptions += ["characteristic > 3 (constants with prime factors 2 and 3 only are treated as units)",
                        "secp256k1 finite Jacobian points have y != 0 (no 2-torsion: the group order is odd)"]
    chk.depends_on += ["C08"]
    w = World(repo)
    npaths = 0
    for mod in OPT_CURVES:
        rep = Rep("proj")
        aff = Rep("affine")
        fn = lambda n: repo.func(f"{mod}.{n}")
        kw = dict(native_fields=False)
        f = fn("double")
        npaths += record(chk, "C13.R1", f, *check_function(w, lambda it, a, f=f: it.call_func(f, list(a), {}), rep, rep, ONE, cases_double, **kw))
        f = fn("add")
        npaths += record(chk, "C13.R1", f, *check_function(w, lambda it, a, f=f: it.call_func(f, list(a), {}), rep, rep, TWO, cases_add, **kw))
        f = fn("neg")
        npaths += record(chk, "C13.R1", f, *check_function(w, lambda it, a, f=f: it.call_func(f, list(a), {}), rep, rep, ONE, cases_neg, **kw))
        f = fn("normalize")
        npaths += record(chk, "C13.R1", f, *check_function(w, lambda it, a, f=f: it.call_func(f, list(a), {}), rep, aff, [("finite",)], cases_normalize, **kw))
        f = fn("eq")
        npaths += record(chk, "C13.R2", f, *check_function(w, lambda it, a, f=f: it.call_func(f, list(a), {}), rep, rep, TWO, cases_eq, "bool", **kw))
        f = fn("is_inf")
        npaths += record(chk, "C13.R2", f, *check_function(w, lambda it, a, f=f: it.call_func(f, list(a), {}), rep, rep, ONE, cases_isinf, "bool", **kw))
        f = fn("is_on_curve")
        b = FieldSym.var("b")
        npaths += record(chk, "C13.R2", f, *check_function(w, lambda it, a, f=f: it.call_func(f, [a[0], b], {}), rep, rep, ONE,
                                                           lambda A: cases_on_curve(A, b.r), "bool", **kw))
    for mod in OPT_PAIRINGS:
        rep = Rep("proj")
        f = repo.func(f"{mod}.linefunc")
        npaths += record(chk, "C13.R3", f, *check_function(w, lambda it, a, f=f: it.call_func(f, list(a), {}), rep, rep,
                                                           [("finite", "finite", "finite")], cases_line, "ratio", native_fields=False))
    # ---- secp256k1
    from ..secp_model import secp_jacobian_obligations
    npaths += secp_jacobian_obligations(chk, "C13.R4", repo, w)
    # the dispatch of add / eq / is_inf / linefunc compares field elements: those comparisons must be exact (C08 re-stated for
    # the extension classes the optimized curves are instantiated with)
    from ..fieldcheck import FieldSubject, fqp_eq_obligations, run_fqp
    for q in ("py_ecc.fields.optimized_bn128_FQ2", "py_ecc.fields.optimized_bn128_FQ12",
              "py_ecc.fields.optimized_bls12_381_FQ2", "py_ecc.fields.optimized_bls12_381_FQ12"):
        S = FieldSubject(w, repo.cls(q))
        if S.d == 2:
            # the z == 0 / x == x' tests compare stored coefficients: every operator result (and every constructed element) must be
            # stored reduced, or a zero written as p compares unequal to zero (all of C08's obligations for the quadratic classes)
            for key, ok, det, where in run_fqp(S):
                chk.ob("C13.R5", q, f"[C08] {key}", ok, det, where)
        else:
            for key, ok, det, where in fqp_eq_obligations(S):
                chk.ob("C13.R5", q, key, ok, det, where)
    chk.note_analysed(paths=npaths, subject_functions=2 * 7 + 2 + 4)


MANIFEST = {
    "level": "proof",
    "technique": "static analysis: abstract interpretation of the formula code in a polynomial/rational-function domain "
                 "(polynomial-invariant checking by substitution and zero-test of normal forms), path/case correspondence "
                 "against the affine chord-and-tangent table",
    "text": "The property is a set of formal polynomial identities per control path; the checker derives each path's result as "
            "rational functions of fully symbolic coordinates per representation class (so representative independence is part of "
            "every obligation) and discharges each (path, affine case) obligation by a normal-form zero test over Z. All "
            "obligations of the 20 subject functions in 5 modules are generated from the current source on every run; the "
            "claim is 'proof' in this sense: obligations == discharged, no sampling.",
    "note": "Trusted base: python ast, evaluator model of the fragment, the checker's polynomial arithmetic, the affine table; "
            "field operators are ring operations (C08). Characteristic > 3 as in the statement; secp256k1 finite points have y != 0.",
}
