"""C13 — projective / Jacobian formulas equal the affine law on every control
path (formal identities; the whole property)."""
from __future__ import annotations

from ..term import AnalysisError
from ..interp import World, Interp
from ..poly import Poly, Rat
from ..ecalg import FieldSym, FieldSymClass, PolyCond
from ..curvelaw import (Rep, check_function, cases_add, cases_double, cases_neg, cases_eq, cases_on_curve,
                        cases_normalize, cases_isinf, cases_line)

LEVEL = "proof"
OPT_CURVES = ["py_ecc.optimized_bn128.optimized_curve", "py_ecc.optimized_bls12_381.optimized_curve"]
OPT_PAIRINGS = ["py_ecc.optimized_bn128.optimized_pairing", "py_ecc.optimized_bls12_381.optimized_pairing"]
SECP = "py_ecc.secp256k1.secp256k1"
ONE = [("finite",), ("inf",)]
TWO = [("finite", "finite"), ("finite", "inf"), ("inf", "finite"), ("inf", "inf")]


def record(chk, rule, f, obs, npaths, extra=""):
    for o in obs:
        chk.ob(rule, f.qualname, f"{o.combo} | {o.case}", o.ok, o.detail + extra, f.where)
    return npaths


def secp_inv_summary(it, f, args, kwargs, node):
    a, n = args
    if isinstance(a, FieldSym):
        if it.truth(PolyCond(a.r, True), node):
            return 0
        return FieldSym(Rat(Poly.const(1)) / a.r, a.cls, True)
    return NotImplemented


def run(chk, repo, tier):
    chk.explanation = ("Each subject function is walked by the abstract evaluator with fully symbolic coordinates per "
                       "representation class (finite / identity); every control path's branch conditions become polynomial "
                       "(in)equations, equalities are eliminated by substitution; for every (path, affine case) pair that is "
                       "consistent the returned representative's affine image is compared with the textbook chord-and-tangent "
                       "result as rational functions (cross-multiplied polynomial = 0 over Z, hence in every characteristic > 3).")
    chk.rule("C13.R1", "optimized curve modules: add/double/neg/normalize return a representative of the affine result on every "
                       "(path, case); every affine case is handled by some path; finite results have Z provably non-zero", 2 * 12)
    chk.rule("C13.R2", "optimized curve modules: eq / is_on_curve / is_inf are equivalent to the affine predicates in every class combination", 2 * 10)
    chk.rule("C13.R3", "optimized pairing modules: linefunc numerator/denominator equals the affine line function on every path", 2 * 3)
    chk.rule("C13.R4", "secp256k1 Jacobian double/add/to/from: affine images equal the affine law; identity is (0,0,*); "
                       "integer comparisons are on reduced values", 12)
    chk.trusted = ["python ast", "the evaluator's model of the Python fragment", "the checker's polynomial arithmetic (vstatic/poly.py)",
                   "the affine chord-and-tangent table in vstatic/curvelaw.py",
                   "field operators are ring operations (C08) — the identities are over Z[coordinates]"]
    chk.assumptions += ["characteristic > 3 (constants with prime factors 2 and 3 only are treated as units)",
                        "secp256k1 finite Jacobian points have y != 0 (no 2-torsion: the group order is odd)"]
    chk.depends_on += ["C08"]
    w = World(repo)
    npaths = 0
    for mod in OPT_CURVES:
        rep = Rep("proj")
        aff = Rep("affine")
        fn = lambda n: repo.func(f"{mod}.{n}")
        kw = dict(native_fields=False)
        f = fn("double")
        npaths += record(chk, "C13.R1", f, *check_function(w, lambda it, a, f=f: it.call_func(f, list(a), {}), rep, rep, ONE, cases_double, **kw))
        f = fn("add")
        npaths += record(chk, "C13.R1", f, *check_function(w, lambda it, a, f=f: it.call_func(f, list(a), {}), rep, rep, TWO, cases_add, **kw))
        f = fn("neg")
        npaths += record(chk, "C13.R1", f, *check_function(w, lambda it, a, f=f: it.call_func(f, list(a), {}), rep, rep, ONE, cases_neg, **kw))
        f = fn("normalize")
        npaths += record(chk, "C13.R1", f, *check_function(w, lambda it, a, f=f: it.call_func(f, list(a), {}), rep, aff, [("finite",)], cases_normalize, **kw))
        f = fn("eq")
        npaths += record(chk, "C13.R2", f, *check_function(w, lambda it, a, f=f: it.call_func(f, list(a), {}), rep, rep, TWO, cases_eq, "bool", **kw))
        f = fn("is_inf")
        npaths += record(chk, "C13.R2", f, *check_function(w, lambda it, a, f=f: it.call_func(f, list(a), {}), rep, rep, ONE, cases_isinf, "bool", **kw))
        f = fn("is_on_curve")
        b = FieldSym.var("b")
        npaths += record(chk, "C13.R2", f, *check_function(w, lambda it, a, f=f: it.call_func(f, [a[0], b], {}), rep, rep, ONE,
                                                           lambda A: cases_on_curve(A, b.r), "bool", **kw))
    for mod in OPT_PAIRINGS:
        rep = Rep("proj")
        f = repo.func(f"{mod}.linefunc")
        npaths += record(chk, "C13.R3", f, *check_function(w, lambda it, a, f=f: it.call_func(f, list(a), {}), rep, rep,
                                                           [("finite", "finite", "finite")], cases_line, "ratio", native_fields=False))
    # ---- secp256k1
    it0 = Interp(w)
    Pmod = it0.eval_global(repo.module(SECP), "P")
    A = it0.eval_global(repo.module(SECP), "A")
    cls = FieldSymClass(modulus=Pmod)
    jac = Rep("jac", cls)
    aff = Rep("affine", cls)
    inv = repo.func(f"{SECP}.inv")
    kw = dict(summaries={inv.qualname: secp_inv_summary})
    unreduced = []

    def call_of(f):
        def c(it, a):
            r = it.call_func(f, list(a), {})
            for ev in it.events:
                if ev["kind"] == "unreduced_compare":
                    unreduced.append((f.qualname, ev["where"], ev["expr"]))
            return r
        return c
    f = repo.func(f"{SECP}.jacobian_double")
    npaths += record(chk, "C13.R4", f, *check_function(w, call_of(f), jac, jac, ONE, lambda X: _with_a(cases_double, A)(X), **kw))
    f = repo.func(f"{SECP}.jacobian_add")
    npaths += record(chk, "C13.R4", f, *check_function(w, call_of(f), jac, jac, TWO, cases_add, **kw))
    f = repo.func(f"{SECP}.to_jacobian")
    npaths += record(chk, "C13.R4", f, *check_function(w, call_of(f), aff, jac, [("finite",)], cases_normalize, **kw))
    f = repo.func(f"{SECP}.from_jacobian")
    npaths += record(chk, "C13.R4", f, *check_function(w, call_of(f), jac, aff, [("finite",)], cases_normalize, **kw))
    # identity encodings: to_jacobian((0,0)) is an identity representative; from_jacobian(identity) == (0, 0)
    it = Interp(w, summaries={inv.qualname: secp_inv_summary})
    r = it.call_func(repo.func(f"{SECP}.to_jacobian"), [(0, 0)], {})
    chk.ob("C13.R4", f"{SECP}.to_jacobian", "(0,0) ↦ identity class (0,0,*)", isinstance(r, tuple) and r[0] == 0 and r[1] == 0,
           f"to_jacobian((0,0)) = {r!r}", repo.func(f"{SECP}.to_jacobian").where)
    from ..ecalg import alg_paths, AlgState
    z = FieldSym.var("z", cls)
    fj = repo.func(f"{SECP}.from_jacobian")
    ps = alg_paths(w, lambda it: it.call_func(fj, [(0, 0, z)], {}), AlgState(), **kw)
    ok = all(p.outcome == "return" and _is00(p.value, p.alg) for p in ps)
    chk.ob("C13.R4", fj.qualname, "identity (0,0,z) ↦ (0,0) for every z including 0", ok,
           f"{len(ps)} paths: {[p.value for p in ps][:3]!r}", fj.where)
    chk.ob("C13.R4", SECP, "integer ==/truth tests only on values reduced mod P", not unreduced,
           "; ".join(f"{q}: {e} at {w_}" for q, w_, e in unreduced[:3]), "py_ecc/secp256k1/secp256k1.py")
    chk.note_analysed(paths=npaths, subject_functions=2 * 7 + 2 + 4)


def _is00(v, st):
    return isinstance(v, tuple) and len(v) == 2 and all(
        (isinstance(c, int) and c == 0) or (isinstance(c, FieldSym) and st.is_zero(c.r) is True) for c in v)


def _with_a(table, a):
    from ..curvelaw import tangent

    def t(X):
        if X is None:
            return [("2·O", [], ("inf",))]
        x1, y1 = X
        return [("y≠0 (tangent)", [(y1, "ne")], tangent(X, a)), ("y=0 (order 2)", [(y1, "eq")], ("inf",))]
    return t


MANIFEST = {
    "level": "proof",
    "technique": "static analysis: abstract interpretation of the formula code in a polynomial/rational-function domain "
                 "(polynomial-invariant checking by substitution and zero-test of normal forms), path/case correspondence "
                 "against the affine chord-and-tangent table",
    "text": "The property is a set of formal polynomial identities per control path; the checker derives each path's result as "
            "rational functions of fully symbolic coordinates per representation class (so representative independence is part of "
            "every obligation) and discharges each (path, affine case) obligation by a normal-form zero test over Z. All "
            "obligations of the 20 subject functions in 5 modules are generated from the current source on every run; the "
            "claim is 'proof' in this sense: obligations == discharged, no sampling.",
    "note": "Trusted base: python ast, evaluator model of the fragment, the checker's polynomial arithmetic, the affine table; "
            "field operators are ring operations (C08). Characteristic > 3 as in the statement; secp256k1 finite points have y != 0.",
}
