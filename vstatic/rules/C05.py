"""C05 — pairings: refuse off-curve input, unit on infinity, lock-step Miller
loop over the right scalar with the right final exponent (bilinearity itself is
not decided)."""
from __future__ import annotations

from ..term import AnalysisError, Term, show
from ..interp import World, Interp
from ..poly import Poly
from ..miller import analyse_miller, analyse_pairing_entry, FSym, fmt
from ..fieldmodel import FieldVal
from ..spec import params as SP

MODS = [("py_ecc.bn128.bn128_pairing", False, "bn"), ("py_ecc.bls12_381.bls12_381_pairing", False, "bls"),
        ("py_ecc.optimized_bn128.optimized_pairing", True, "bn"), ("py_ecc.optimized_bls12_381.optimized_pairing", True, "bls")]


def is_one(v):
    return isinstance(v, FieldVal) and v.kind == "FQP" and v.v == (1,) + (0,) * (len(v.v) - 1)


def has(facts, atom, truth):
    return facts.get(atom) is truth


def run(chk, repo, tier):
    chk.explanation = ("The four pairing() functions are evaluated with the on-curve tests opaque and the Miller loop as a sink: "
                       "guard dominance and the infinity shortcut are read off the path facts. Each miller_loop is evaluated in a "
                       "formal domain (running point = integer multiple of Q, Miller value = formal product of line evaluations) "
                       "and replayed against the lock-step schema; the loop scalar and the final exponent are compared with values "
                       "derived from the curve parameters.")
    # restate C13
    from . import C13 as _dep_C13
    from ..report import SubCheck as _SubCheck
    chk.rule("C05.R4", "the group law under the pairing arguments (sums of points, any projective representative): C13's obligations for the optimized curve and line functions re-stated", 60)
    _sub = _SubCheck()
    _err = None
    try:
        _dep_C13.run(_sub, repo, tier)
    except AnalysisError as _e:
        _err = _e
    for _rule, _construct, _key, _ok, _detail, _where in _sub.obs:
        if "secp256k1" not in _construct:
            chk.ob("C05.R4", _construct, f"[{_rule}] {_key}", _ok, _detail, _where)
    if _err is not None and all(o[3] for o in _sub.obs):
        raise _err
    # the statement's arguments aP, bQ are built with multiply: the ladder schema of the four modules (C07.R3) re-stated
    from . import C07 as _dep_C07
    _sub7 = _SubCheck()
    _err7 = None
    try:
        _dep_C07.run(_sub7, repo, "quick")
    except AnalysisError as _e:
        _err7 = _e
    for _rule, _construct, _key, _ok, _detail, _where in _sub7.obs:
        if _rule == "C07.R3":
            chk.ob("C05.R4", _construct, f"[{_rule}] {_key}", _ok, _detail, _where)
    if _err7 is not None and all(o[3] for o in _sub7.obs):
        raise _err7
    chk.rule("C05.R1", "is_on_curve(Q, b2) and is_on_curve(P, b) (the module's own coefficients) dominate the Miller loop; the false edges raise", 4)
    chk.rule("C05.R2", "an infinity argument yields FQ12.one() without evaluating any line function; no other caller of miller_loop", 4 * 2)
    chk.rule("C05.R3", "lock-step Miller loop: every line is through the running point and the point then added/doubled, f ← f²·ℓ / f·ℓ, "
                       "loop scalar = ate loop count derived from the curve parameter, BN: + π(Q) and −π²(Q) steps, final exponent (p¹²−1)/r", 4 * 3)
    chk.not_decided += ["bilinearity and non-degeneracy (theorems about divisors of Miller functions; no finite-path shape implies them)",
                        "equality of the optimized BN (signed-digit) value with the reference value after final exponentiation"]
    chk.assumptions += ["add/double/twist are the group law / a homomorphism (C07, C13); line functions are the affine lines (C13.R3, C12.R3)"]
    chk.depends_on += ["C07", "C13", "C12"]
    w = World(repo)
    for mod, opt, fam in MODS:
        # ------------------------------------------------------------ R1 / R2
        A = analyse_pairing_entry(w, repo, mod, opt)
        f = A["f"]
        paths = A["paths"]
        onQ = Term("is_on_curve", ("Q", A["b2"]), "bool")
        onP = Term("is_on_curve", ("P", A["b"]), "bool")
        bad = []
        nsink = 0
        for p in paths:
            for ev in p.events:
                if ev["kind"] == "miller":
                    nsink += 1
                    from ..miller import PSym
                    a0, a1 = (list(ev["args"]) + [None, None])[:2]
                    if not (isinstance(a0, PSym) and a0.name == "Q" and isinstance(a1, PSym) and a1.name == "P"):
                        bad.append(f"miller_loop at {ev['where']} is not called on the validated points (Q, P) themselves but on values "
                                   "computed from their coordinates (the on-curve tests say nothing about those)")
                    if not (has(ev["facts"], onQ, True) and has(ev["facts"], onP, True)):
                        bad.append(f"miller_loop at {ev['where']} reachable without is_on_curve(Q, b2) ∧ is_on_curve(P, b) on path "
                                   f"{' '.join(p.branch_lines())}")
            facts = p.interp.facts
            if (has(facts, onQ, False) or has(facts, onP, False)) and p.outcome != "raise":
                bad.append(f"off-curve argument not refused: returns {show(p.value)[:60]} on path {' '.join(p.branch_lines())}")
            if p.outcome == "return" and not (has(facts, onQ, True) and has(facts, onP, True)):
                bad.append(f"returns {show(p.value)[:40]} without having tested is_on_curve(Q, b2) and is_on_curve(P, b) "
                           f"(an off-curve argument is accepted) on path {' '.join(p.branch_lines())}")
        chk.ob("C05.R1", f.qualname, "on-curve guards dominate the Miller loop with raising false edges", not bad and nsink >= 1,
               "; ".join(bad[:2]) or f"{len(paths)} paths, {nsink} sink evaluation(s)", f.where)
        # infinity
        probs = []
        if opt:
            for p in paths:
                facts = p.interp.facts
                infP = has(facts, Term("coord_is_zero", ("P", -1), "bool"), True) or has(facts, Term("coord_is_zero", ("P", 2), "bool"), True)
                infQ = has(facts, Term("coord_is_zero", ("Q", -1), "bool"), True) or has(facts, Term("coord_is_zero", ("Q", 2), "bool"), True)
                if (infP or infQ) and p.outcome == "return":
                    if not is_one(p.value) or any(ev["kind"] == "miller" for ev in p.events):
                        probs.append(f"infinity argument: returns {show(p.value)[:60]} (Miller loop evaluated: "
                                     f"{any(ev['kind'] == 'miller' for ev in p.events)})")
                if (infP or infQ) and p.outcome == "raise" and has(facts, onQ, True) and has(facts, onP, True):
                    probs.append(f"infinity argument (on-curve tests passed): raises {p.value.clsname()} at {p.value.where} "
                                 "instead of returning one")
            # every Miller sink must know both z != 0
            for p in paths:
                for ev in p.events:
                    if ev["kind"] == "miller":
                        fz = ev["facts"]
                        okz = all(any(has(fz, Term("coord_is_zero", (n, i), "bool"), False) for i in (-1, 2)) for n in ("P", "Q"))
                        if not okz:
                            probs.append(f"miller_loop at {ev['where']} reachable with an infinity argument (z = 0 not excluded)")
            chk.ob("C05.R2", f.qualname, "infinity ⇒ one, Miller loop only with both z ≠ 0", not probs, "; ".join(probs[:2]), f.where)
        else:
            bad_inf = []
            for qv, pv in (("none", "sym"), ("sym", "none"), ("none", "none")):
                B = analyse_pairing_entry(w, repo, mod, opt, qv, pv)
                for p in B["paths"]:
                    facts = p.interp.facts
                    if p.outcome == "return":
                        if not is_one(p.value) or any(ev["kind"] == "miller" for ev in p.events):
                            probs.append(f"pairing({'O' if qv == 'none' else 'Q'}, {'O' if pv == 'none' else 'P'}) returns {show(p.value)[:60]}")
                        # the other (finite) argument is still validated
                        need = [t for t, v in ((onQ, qv), (onP, pv)) if v == "sym"]
                        if not all(has(facts, t, True) for t in need):
                            bad_inf.append(f"pairing({'O' if qv == 'none' else 'Q'}, {'O' if pv == 'none' else 'P'}) returns "
                                           f"{show(p.value)[:40]} without having tested is_on_curve of the finite argument "
                                           f"(an off-curve point paired with infinity is accepted) on path {' '.join(p.branch_lines())}")
                    elif not (has(facts, onQ, False) or has(facts, onP, False)):
                        probs.append(f"pairing with an infinity argument raises {p.value.clsname()} at {p.value.where}")
            chk.ob("C05.R2", f.qualname, "infinity (None) in either argument ⇒ one, no line function evaluated", not probs, "; ".join(probs[:2]), f.where)
            chk.ob("C05.R1", f.qualname, "with one argument at infinity the other is still refused when off its curve", not bad_inf,
                   "; ".join(bad_inf[:2]), f.where)
        # callers of miller_loop
        ml = A["miller"]
        callers = set()
        import ast
        for fn in repo.all_functions():
            for n in ast.walk(fn.node):
                if isinstance(n, ast.Call) and isinstance(n.func, ast.Name) and n.func.id == "miller_loop":
                    r = repo.resolve_binding(fn.module, "miller_loop")
                    if r and r[0] == "func" and r[1] is ml:
                        callers.add(fn.qualname)
        chk.ob("C05.R2", ml.qualname, "only pairing() calls miller_loop inside the package", callers == {f.qualname},
               f"callers: {sorted(callers)}", ml.where)
        # ------------------------------------------------------------ R3
        O = SP.BN if fam == "bn" else SP.BLS
        for flag in ([True, False] if opt else [True]):
            r = analyse_miller(w, repo, mod, opt, flag)
            mf = r["f"]
            tag = f"[final_exponentiate={flag}]" if opt else ""
            chk.ob("C05.R3", mf.qualname, f"lock-step chain {tag}", r["ok"], "; ".join(r["problems"][:2]) or f"{r.get('nlines')} lines", mf.where)
            if not r["ok"]:
                continue
            R = r["R"]
            want = {"Q": Poly.const(O["ate_loop_count"])}
            if fam == "bn":
                want[("π^1", "Q")] = Poly.const(1)
            okR = R == want
            tr = r["trailing"]
            if fam == "bn":
                okR = okR and tr is not None and tr[0] == want and tr[1] == {("π^2", "Q"): Poly.const(-1)}
            else:
                okR = okR and tr is None
            chk.ob("C05.R3", mf.qualname, f"loop scalar and Frobenius steps {tag}", okR,
                   f"running point ends at {fmt(R)}; oracle scalar {'6u+2' if fam == 'bn' else '|x|'} = {O['ate_loop_count']}"
                   + (f"; last line through {fmt(tr[0])}, {fmt(tr[1])}" if tr else ""), mf.where)
            E = (O["p"] ** 12 - 1) // O["r"]
            val = r["value"]
            okE = (val.powered == E) if flag else (val.powered is None)
            chk.ob("C05.R3", mf.qualname, f"final exponent {tag}", okE and r["p"] == O["p"] and r["r"] == O["r"],
                   f"power applied: {'(p^12-1)/r' if val.powered == E else val.powered if val.powered is None else 'another exponent (' + str(val.powered.bit_length()) + ' bits)'}",
                   mf.where)


MANIFEST = {
    "level": "other",
    "technique": "static analysis: guard dominance on path facts for the four pairing() entry points, formal-domain replay of each "
                 "Miller loop against the lock-step schema, constant folding of loop count and final exponent vs derived parameters",
    "text": "Decides, for all four implementations (the two reference ones have no working test in this environment): off-curve "
            "arguments are refused before any Miller step, infinity gives one without evaluating a line, every line is taken "
            "through the running point and the point then added or doubled with f updated in step, the loop scalar is 6u+2 resp. "
            "|x| with exactly the two Frobenius steps for BN, and the final exponent is (p^12−1)/r. Bilinearity and non-degeneracy "
            "are theorems about this algorithm and are not decided.",
    "note": "R4 re-states C13 (formulas) and the multiply ladder schema of all four modules (C07.R3): the arguments aP, bQ of the statement are built with multiply. Layered on C07/C13 (group law, twist homomorphism) and C13.R3/C12.R3 (line functions). Oracle: BN/BLS parameter polynomials.",
}
