"""C15 — expand_message_xmd and hash_to_field match RFC 9380 (guards + terms)."""
from __future__ import annotations

from ..term import AnalysisError, Term, var, show, t_concat, t_len
from ..interp import Interp, World, enumerate_paths, HashFn, SymSeq
from ..bls_model import resolve, sym_field_ctor
from ..ranges import interval_of_facts, normalise, show_set, INF
from ..spec import rfc
from ..spec.params import BLS

HASHMOD = "py_ecc.bls.hash"
H2C = "py_ecc.bls.hash_to_curve"


def xor_summary(it, f, args, kwargs, node):
    from ..term import t_xor
    return t_xor(args[0], args[1])


class CeilDomain:
    """decides comparisons between integer-linear expressions in L = len_in_bytes and b = digest size under the case split
    ell = ceil(L / b), i.e. (ell − 1)·b < L ≤ ell·b, with b ≥ 1 (and block size ≥ 1, lengths ≥ 0)"""

    def __init__(self, L, b, ell, concrete_L=None):
        self.L, self.b, self.ell, self.cL = L, b, ell, concrete_L

    def _form(self, t):
        from ..digits import linform
        c, m = linform(t)
        al = m.pop(self.L, 0) if isinstance(self.L, Term) else 0
        be = m.pop(self.b, 0)
        for a in list(m):
            # other atoms: lengths and sizes are >= 0 — only usable when their coefficient sign settles the question
            if not (isinstance(a, Term) and a.op in ("len", "digest_size", "block_size")):
                return None
        return al, be, c, m

    def _sign_lt0(self, al, be, c, rest):
        """is al·L + be·b + c + Σ rest_i·n_i < 0 for all admissible values?  True / False / None"""
        ell = self.ell
        # upper bound
        hi_ok = lo_ok = None
        if all(v <= 0 for v in rest.values()):
            if al == 0:
                hi = (be, c)
            elif al > 0:
                hi = (al * ell + be, c)                      # L <= ell·b
            else:
                hi = (al * (ell - 1) + be, al + c)           # L >= (ell−1)·b + 1
            if hi[0] <= 0 and hi[0] + hi[1] < 0:             # b >= 1
                hi_ok = True
        if all(v >= 0 for v in rest.values()):
            if al == 0:
                lo = (be, c)
            elif al > 0:
                lo = (al * (ell - 1) + be, al + c)
            else:
                lo = (al * ell + be, c)
            if lo[0] >= 0 and lo[0] + lo[1] >= 0:
                lo_ok = True
        if hi_ok:
            return True
        if lo_ok:
            return False
        return None

    def decide(self, it, atom):
        if not (isinstance(atom, Term) and atom.op == "lt"):
            return None
        from ..term import t_arith
        f = self._form(t_arith("sub", atom.args[0], atom.args[1]))
        if f is None:
            return None
        al, be, c, rest = f
        if self.ell == 0 and al != 0:
            return None
        return self._sign_lt0(al, be, c, rest)

    def assume(self, it, atom, truth):
        pass


def run(chk, repo, tier):
    chk.explanation = ("expand_message_xmd is evaluated with msg, DST, len_in_bytes and the hash function (digest and block "
                       "size) symbolic, after a case split on ell; hash_to_field_FQ/FQ2 with SHA-256 for every admissible count; "
                       "outputs are compared with the RFC 9380 terms; the two parameter guards are computed as exact sets.")
    ells = [0, 1, 2, 3, 4, 128, 254, 255] if tier == "quick" else list(range(0, 256))
    chk.rule("C15.R1", "len(DST) > 255 and ell > 255 are refused (exact sets) before any use, nothing else is; xor is the byte-wise xor", 4)
    chk.rule("C15.R2", "output term equals RFC 9380 §5.3.1 for every ell (Z_pad from the block size, ell from the digest size)", len(ells))
    chk.rule("C15.R3", "hash_to_field: element i, coordinate j = OS2IP(uniform[L(j+im) : L(j+im)+L]) mod p, L = 64, every count", 4)
    chk.assumptions += ["byte strings compared in the free monoid over atoms", "hashlib is what its names say; digest sizes of "
                        "fixed-output hashlib functions are ≤ 257 so that I2OSP(len_in_bytes, 2) cannot overflow under ell ≤ 255",
                        "math.ceil(a / b) is exact for the admissible magnitudes (len_in_bytes ≤ 255·64 < 2^53)"]
    w = World(repo)
    xm = repo.func(f"{HASHMOD}.expand_message_xmd")
    xorf = resolve(repo, HASHMOD, "xor")
    msg, dst = var("msg", "bytes"), var("DST", "bytes")
    L = var("len_in_bytes", "int")
    Hf = var("H", "hashfn")
    # ---- xor body
    a, b = var("a", "bytes"), var("b", "bytes")
    it = Interp(w)
    xr = it.call_func(xorf, [a, b], {})
    ok = (isinstance(xr, Term) and xr.op == "bytes_of" and isinstance(xr.args[0], Term) and xr.args[0].op == "symseq"
          and xr.args[0].args[1] is Term("xor", (Term("elem", (a,), "int"), Term("elem", (b,), "int")), "int"))
    if not ok and isinstance(xr, Term) and xr.op == "i2osp":
        # integer form: I2OSP(OS2IP(a) xor OS2IP(b), len(a)) — the same function on equal-length strings (the only use)
        body, n = xr.args
        ints = {Term("os2ip", (a,), "int"), Term("os2ip", (b,), "int")}
        ok = (isinstance(body, Term) and body.op == "xor" and set(body.args) == ints and (n is t_len(a) or n is t_len(b)))
    chk.ob("C15.R1", xorf.qualname, "bytes(x ^ y for x, y in zip(a, b))", ok, f"got {show(xr)[:300]}", xorf.where)
    # ---- concrete hash functions x boundary lengths (msg, DST symbolic): catches any confusion of block and
    #      digest size however the block count is written
    hashes = ["sha256", "sha512", "sha384", "sha3_256", "blake2b"] if tier == "thorough" else ["sha256", "sha384", "sha3_256"]
    chk.rule("C15.R2c", "concrete hashlib functions x boundary lengths: output term equals the RFC term", len(hashes))
    for hn in hashes:
        hf = HashFn(hn)
        ds = hf.digest_size
        lens = sorted({0, 1, ds - 1, ds, ds + 1, 2 * ds, 3 * ds - 1, 128, 255 * ds - 1, 255 * ds})
        bad = []
        for Lc in lens:
            def runc(it):
                return it.call_func(xm, [msg, dst, Lc, hf], {})
            paths = enumerate_paths(w, runc, summaries={xorf.qualname: xor_summary})
            rets = [p for p in paths if p.outcome == "return"]
            want = rfc.expand_message_xmd(hf, msg, dst, Lc, -(-Lc // ds))
            if not rets or any(p.value is not want for p in rets):
                bad.append((Lc, show(rets[0].value)[:200] if rets else "no returning path"))
        for Lc in (255 * ds + 1, 65535 if 65535 > 255 * ds else 255 * ds + 7):
            def runc(it):
                return it.call_func(xm, [msg, dst, Lc, hf], {})
            paths = enumerate_paths(w, runc, summaries={xorf.qualname: xor_summary})
            if any(p.outcome == "return" for p in paths):
                bad.append((Lc, "returns bytes for a length beyond 255 blocks"))
        chk.ob("C15.R2c", xm.qualname, f"{hn} (digest {ds}, block {hf.block_size}), {len(lens) + 2} lengths", not bad,
               f"len_in_bytes = {bad[0][0]}: got {bad[0][1]}" if bad else "", xm.where)
    # ---- guards and terms per ell, hash function symbolic
    dsz = Term("digest_size", (Hf,), "int")
    ellterm = Term("ceildiv", (L, dsz), "int")
    from ..term import t_arith
    ell_forms = [ellterm,
                 t_arith("floordiv", t_arith("sub", t_arith("add", L, dsz), 1), dsz),
                 t_arith("floordiv", t_arith("add", L, t_arith("sub", dsz, 1)), dsz),
                 t_arith("sub", 0, t_arith("floordiv", t_arith("sub", 0, L), dsz))]
    dst_accept = []
    spurious = []
    dst_use_bad = []
    ell_ok = True
    ell_msgs = []
    for ell in ells + [256, 300]:
        Lc = 0 if ell == 0 else L

        def run1(it):
            return it.call_func(xm, [msg, dst, Lc, Hf], {})
        paths = enumerate_paths(w, run1, int_bindings={k: ell for k in ell_forms}, summaries={xorf.qualname: xor_summary},
                                domain=CeilDomain(L, dsz, ell))
        rets = [p for p in paths if p.outcome == "return"]
        if ell > 255:
            if rets:
                ell_ok = False
                ell_msgs.append(f"ell = {ell} returns bytes")
            for p in paths:
                if p.outcome == "raise" and p.value.clsname() not in ("builtins.ValueError",):
                    ell_msgs.append(f"ell = {ell}: raises {p.value.clsname()} (not the guard's ValueError) at {p.value.where}")
                    ell_ok = False
            continue
        for p in paths:
            facts = [(a_, t) for a_, t, _ in p.facts]
            lo, hi, holes, others = interval_of_facts(facts, t_len(dst))
            lo = max(lo, 0)
            if p.outcome == "raise" and not lo >= 256:
                # ell <= 255 here: the only admissible refusal is the over-long tag
                spurious.append(f"ell = {ell}: raises {p.value.clsname()} at {p.value.where} although len(DST) <= 255 is possible "
                                f"(path {' '.join(p.branch_lines()[-3:])})")
            if p.outcome == "return":
                dst_accept.append((lo, hi))
                for ev in p.events:
                    if ev["kind"] == "implicit_raise" and ev["cond"][0] == "i2osp_range" and ev["cond"][1] is t_len(dst):
                        if not hi <= 255:
                            dst_use_bad.append(ev["where"])
            if ell != 0 and not any(ev["kind"] == "case_split" for ev in p.events) and p.outcome == "return":
                ell_ok = False
                ell_msgs.append("ell is not computed as ceil(len_in_bytes / digest_size)")
        want = rfc.expand_message_xmd(Hf, msg, dst, Lc, ell)
        good = bool(rets) and all(p.value is want for p in rets)
        chk.ob("C15.R2", xm.qualname, f"ell = {ell}", good,
               "" if good else f"got {[show(p.value)[:400] for p in rets][:1]}; want {show(want)[:400]}", xm.where, nontrivial=ell > 0)
    acc = normalise(dst_accept)
    chk.ob("C15.R1", xm.qualname, "accepted DST lengths == [0, 255]; I2OSP(len(DST), 1) only under the guard",
           acc == [(0, 255)] and not dst_use_bad, f"accepted DST lengths {show_set(acc)}; unguarded uses {dst_use_bad}", xm.where)
    chk.ob("C15.R1", xm.qualname, "no other refusal: for len(DST) <= 255 and ell <= 255 every message and length is expanded", not spurious,
           "; ".join(sorted(set(spurious))[:2]), xm.where)
    chk.ob("C15.R1", xm.qualname, "ell > 255 refused with ValueError, ell = ceil(len_in_bytes / digest size)", ell_ok,
           "; ".join(sorted(set(ell_msgs))) or "ell ∈ {256, 300} raise", xm.where)
    # ---- hash_to_field
    p = BLS["p"]
    SHA = HashFn("sha256")
    for fname, m in (("hash_to_field_FQ2", 2), ("hash_to_field_FQ", 1)):
        f = repo.func(f"{H2C}.{fname}")
        maxc = (255 * 32) // (m * 64)
        counts = [1, 2, 3, maxc] if tier == "quick" else list(range(1, maxc + 1))
        bad = []
        for c in counts:
            def run2(it):
                return it.call_func(f, [msg, c, dst, SHA], {})
            paths = enumerate_paths(w, run2, summaries={xorf.qualname: xor_summary}, class_hooks=[sym_field_ctor])
            rets = [pp for pp in paths if pp.outcome == "return"]
            want = rfc.hash_to_field(SHA, msg, dst, c, m, 64, p)
            for pp in rets:
                got = pp.value
                if not (isinstance(got, tuple) and len(got) == c and all(_coords(g) == wv for g, wv in zip(got, want))):
                    bad.append((c, show(got)[:300]))
            if not rets:
                bad.append((c, "no returning path"))
        chk.ob("C15.R3", f.qualname, f"counts {counts[0]}..{counts[-1]} ({len(counts)} cases)", not bad,
               f"mismatch for count {bad[0][0]}: {bad[0][1]}" if bad else "", f.where)
        # beyond the admissible count the request must be refused, not truncated
        def run3(it):
            return it.call_func(f, [msg, maxc + 1, dst, SHA], {})
        paths = enumerate_paths(w, run3, summaries={xorf.qualname: xor_summary}, class_hooks=[sym_field_ctor])
        chk.ob("C15.R3", f.qualname, f"count {maxc + 1} (ell > 255) is refused", all(pp.outcome == "raise" for pp in paths),
               "", f.where)


def _coords(g):
    """mkfield(cls, x) / mkfield(cls, (x0, x1)) -> tuple of coordinate terms"""
    if isinstance(g, Term) and g.op == "mkfield":
        a = g.args[1]
        return tuple(a) if isinstance(a, tuple) else (a,)
    return None


MANIFEST = {
    "level": "other",
    "technique": "static analysis: symbolic evaluation in a byte-string term domain with the hash function, its block and digest "
                 "size symbolic; case split on ell; normal-form comparison with RFC 9380 §5.3.1/§5.2 terms; exact guard sets",
    "text": "Decides for every message, tag, requested length and every hash (block/digest size symbolic) that the output of "
            "expand_message_xmd is the RFC term for each ell (all 0..255 in thorough, boundary sample in quick), that longer tags "
            "and ell > 255 raise, and that hash_to_field slices 64-byte big-endian words reduced mod p for every admissible count.",
    "note": "Free-monoid reading of byte strings; hashlib trusted; digest size ≤ 257 assumed for the two-byte length field.",
}
