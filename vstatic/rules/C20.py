"""C20 — public functions are pure and history-independent (effect analysis)."""
from __future__ import annotations

import ast

from ..term import AnalysisError
from ..loader import Repo, norm_stmt
from ..effects import (constructor_helpers, Effects, FRESH, IMMUT, PARAM, MODULE, CLASS, SELF, SELF_INIT, UNKNOWN, FRESHPART,
                       INPLACE_DUNDERS, NONDET_MODULES, ALLOWED_IMPORT_ROOTS, NONDET_CALLS, MEMO_DECOS)

# reviewed sites: (qualified function or module, key) -> reason
REVIEWED_STORES = {
    ("py_ecc._import_module", "store globals()[name] [module]"):
        "idempotent lazy-import cache of module objects (same module object on every call)",
}
REVIEWED_MEMO = {
    "py_ecc.fields.optimized_field_elements.FQ.sgn0": "memo of a pure function of .n, which R4 shows is never written after construction",
    "py_ecc.fields.optimized_field_elements.FQP.sgn0": "memo of a pure function of .coeffs (immutable tuple, never rebound: R4)",
    "py_ecc.fields.optimized_field_elements.FQ2.sgn0": "memo of a pure function of .coeffs (immutable tuple, never rebound: R4)",
}
REVIEWED_TOPLEVEL = {
    ("py_ecc", "_sys.setrecursionlimit(max(100000, _sys.getrecursionlimit()))"):
        "process-wide but monotone (max) and idempotent; results of library functions do not depend on it",
}
FIELD_ATTRS = {"n", "coeffs", "modulus_coeffs", "degree", "mc_tuples", "FQP_corresponding_FQ_class", "field_modulus",
               "FQ2_MODULUS_COEFFS", "FQ12_MODULUS_COEFFS"}

POSITIVE_EXAMPLE = {
    "py_ecc/__init__.py": "",
    "py_ecc/demo.py": (
        "TABLE = [1, 2, 3]\n"
        "CACHE = {}\n"
        "def f(xs, k):\n"
        "    t = TABLE\n"
        "    t[0] = k\n"                      # module-level constant written through an alias
        "    xs.append(k)\n"                 # parameter mutated
        "    CACHE[k] = xs\n"                # module-level dict written
        "    ys = list(xs)\n"
        "    ys.append(1)\n"                 # fresh: fine
        "    return ys\n"
        "def _fill(buf):\n"
        "    buf.append(0)\n"
        "def g():\n"
        "    _fill(TABLE)\n"                 # helper mutates a constant passed to it
        "    b = []\n"
        "    _fill(b)\n"                     # fine
        "    return b\n"
    ),
}


def site_ok(s):
    return s.origin in (FRESH, IMMUT, "self-field-in-init")


def _container_name(src):
    """base container of a store/mutating-call target text: `D[k]`, `D.clear`, `cls.D[k]` -> D"""
    try:
        e = ast.parse(src, mode="eval").body
    except SyntaxError:
        return None
    while isinstance(e, (ast.Subscript, ast.Call)):
        e = e.value if isinstance(e, ast.Subscript) else e.func
    from ..memo import MUTATORS
    if isinstance(e, ast.Attribute) and e.attr in MUTATORS:
        e = e.value               # D.clear -> D
    if isinstance(e, ast.Subscript):
        e = e.value
    if isinstance(e, ast.Name):
        return e.id
    if isinstance(e, ast.Attribute) and isinstance(e.value, ast.Name):
        return e.attr             # cls.D -> D
    return None


def analyse(repo):
    """returns (list of (construct, key, where, detail) findings, stats)"""
    E = Effects(repo)
    findings = []
    memo_ok = []
    stats = {"store_sites": len(E.sites), "functions": len(E.funcs), "calls_resolved": len(E.calls)}
    # ---- R1 stores
    for s in E.sites:
        if site_ok(s):
            continue
        q = s.func.qualname
        if s.origin in (PARAM, SELF):
            # deferred: decided with the interprocedural summaries below
            continue
        if s.origin in (MODULE, CLASS):
            nm = _container_name(s.target_src)
            if nm is not None:
                from ..memo import transparent_memo
                okm, why = transparent_memo(repo, s.func, nm)
                if okm:
                    memo_ok.append((q, s.key(), s.where, why))
                    continue
        findings.append(("R1", q, s.key(), s.where,
                         f"{s.kind} to `{s.target_src}`: the object written is {s.origin} (not allocated in this activation)"))
    ctor_helpers = constructor_helpers(E)
    stats["ctor_helpers"] = sorted(ctor_helpers)
    # parameter mutation: violation for public functions, and for helpers unless every call site passes a fresh object
    changed = True
    mut = {q: set(fe.mutated_params) for q, fe in E.funcs.items() if fe.mutated_params}
    bad_calls = []
    while changed:
        changed = False
        for caller, call, callee in E.calls:
            m = mut.get(callee.qualname)
            if not m:
                continue
            fe = E.funcs[callee.qualname]
            offset = 1 if (callee.cls is not None and callee.kind != "staticmethod") else 0
            for pn in m:
                idx = fe.params.index(pn) - offset
                if idx < 0:
                    arg = call.func.value if isinstance(call.func, ast.Attribute) else None
                elif idx < len(call.args):
                    arg = call.args[idx]
                else:
                    arg = {k.arg: k.value for k in call.keywords}.get(pn)
                if arg is None:
                    continue
                o = caller.origin_of_expr(arg)
                if o in (FRESH, "self-field-in-init"):
                    continue
                if callee.qualname in ctor_helpers and pn == fe.params[0]:
                    continue            # the object under construction, handed to its own constructor helper
                if o in (PARAM, SELF):
                    ps = E._params_in(arg, caller)
                    cur = mut.setdefault(caller.f.qualname, set())
                    if not set(ps) <= cur:
                        cur.update(ps)
                        changed = True
                elif o != IMMUT:
                    bad_calls.append((caller, call, callee, pn, o))
    for q, ps in mut.items():
        f = E.funcs[q].f
        name = f.node.name
        public = not name.startswith("_") or (name.startswith("__") and name.endswith("__"))
        callers = [c for c in E.calls if c[2].qualname == q]
        if public or not callers:
            for s in E.sites:
                if s.func.qualname == q and s.origin in (PARAM, SELF):
                    findings.append(("R1", q, s.key(), s.where,
                                     f"{s.kind} to `{s.target_src}` mutates an argument of a public function"))
            if not any(s.func.qualname == q and s.origin in (PARAM, SELF) for s in E.sites):
                findings.append(("R1", q, f"passes its parameter {sorted(ps)} to a mutating callee", f.where,
                                 "argument mutated through a helper"))
    for caller, call, callee, pn, o in bad_calls:
        findings.append(("R1", caller.f.qualname, f"passes {o} object to {callee.qualname}({pn}) which stores into it",
                         f"{caller.f.module.relpath}:{call.lineno}", f"`{ast.unparse(call)[:100]}`"))
    # ---- R2 hidden state
    for m in repo.modules.values():
        for c in m.classes.values():
            for mn, f in c.methods.items():
                if mn in INPLACE_DUNDERS:
                    findings.append(("R2", f.qualname, f"defines in-place method {mn}", f.where,
                                     "augmented assignments on shared objects would mutate them"))
        for f in list(m.functions.values()) + [f for c in m.classes.values() for f in c.methods.values()]:
            for d in f.node.args.defaults + [d for d in f.node.args.kw_defaults if d is not None]:
                if isinstance(d, (ast.List, ast.Dict, ast.Set, ast.ListComp, ast.DictComp, ast.SetComp)) or \
                        (isinstance(d, ast.Call) and not (isinstance(d.func, ast.Name) and d.func.id in ("tuple", "frozenset", "bytes", "int"))):
                    findings.append(("R2", f.qualname, f"mutable default argument {ast.unparse(d)[:40]}", f.where, ""))
            for d in f.node.decorator_list:
                dn = ast.unparse(d).split("(")[0]
                if dn in MEMO_DECOS or dn.split(".")[-1] in MEMO_DECOS:
                    if f.qualname not in REVIEWED_MEMO:
                        if dn.split(".")[-1] in ("lru_cache", "cache") and (f.cls is None or f.kind == "staticmethod"):
                            # keyed by the complete argument tuple of a function that (by R1, which treats its results as
                            # shared objects) writes nothing and whose results nobody writes: a transparent memo
                            memo_ok.append((f.qualname, f"memoising decorator {dn}", f.where,
                                            "keyed by all arguments; results are treated as shared objects by R1"))
                            continue
                        findings.append(("R2", f.qualname, f"memoising decorator {dn}", f.where,
                                         "cache keyed on arguments/instance: history-dependence unless reviewed"))
        # module level: stores through attributes/subscripts, bare calls
        for st in m.tree.body:
            if isinstance(st, ast.Expr) and isinstance(st.value, ast.Call):
                key = (m.name, norm_stmt(st))
                is_limit = isinstance(st.value.func, ast.Attribute) and st.value.func.attr == "setrecursionlimit" and \
                    not any(isinstance(x, ast.Name) and x.id not in (getattr(st.value.func.value, "id", None), "max", "min")
                            and not x.id.startswith("_") for x in ast.walk(st.value) if isinstance(x, ast.Name))
                # the interpreter's recursion limit: the one reviewed import-time setting (its value is C04.R8's subject)
                if key not in REVIEWED_TOPLEVEL and not is_limit and not _effect_free_call(repo, E, m, st.value):
                    findings.append(("R2", m.name, f"import-time call {norm_stmt(st)[:80]}", f"{m.relpath}:{st.lineno}",
                                     "statement executed for effect at import"))
            for t in (st.targets if isinstance(st, ast.Assign) else [st.target] if isinstance(st, (ast.AugAssign, ast.AnnAssign)) else []):
                if isinstance(t, (ast.Attribute, ast.Subscript)):
                    findings.append(("R2", m.name, f"import-time store {ast.unparse(t)[:60]}", f"{m.relpath}:{st.lineno}", ""))
    # ---- R3 determinism
    for m in repo.modules.values():
        for n in ast.walk(m.tree):
            mods = []
            if isinstance(n, ast.Import):
                mods = [a.name for a in n.names]
            elif isinstance(n, ast.ImportFrom) and n.level == 0 and n.module:
                mods = [n.module]
            for mm in mods:
                root = mm.split(".")[0]
                from ..effects import ALLOWED_FROM
                if isinstance(n, ast.ImportFrom) and mm in ALLOWED_FROM and {a.name for a in n.names} <= ALLOWED_FROM[mm]:
                    continue
                if root in NONDET_MODULES or root not in ALLOWED_IMPORT_ROOTS:
                    findings.append(("R3", m.name, f"imports {mm}", f"{m.relpath}:{n.lineno}",
                                     "module outside the closed list of deterministic, effect-free dependencies"))
            if isinstance(n, ast.Call) and isinstance(n.func, ast.Name) and n.func.id in NONDET_CALLS:
                if repo.resolve_binding(m, n.func.id) is None:
                    findings.append(("R3", m.name, f"calls {n.func.id}()", f"{m.relpath}:{n.lineno}",
                                     "non-deterministic / effectful builtin"))
        # set iteration order leaks (hash randomisation of bytes/str)
        parents = {}
        for n in ast.walk(m.tree):
            for ch in ast.iter_child_nodes(n):
                parents[ch] = n
        for n in ast.walk(m.tree):
            is_set = isinstance(n, (ast.Set, ast.SetComp)) or (isinstance(n, ast.Call) and isinstance(n.func, ast.Name)
                                                               and n.func.id in ("set", "frozenset"))
            if not is_set:
                continue
            p = parents.get(n)
            ok = False
            if isinstance(p, ast.Call) and isinstance(p.func, ast.Name) and p.func.id in ("len", "sorted", "min", "max", "sum", "bool", "any", "all") \
                    and n in p.args:
                ok = True
            if isinstance(p, ast.Compare) and any(isinstance(o, (ast.In, ast.NotIn)) for o in p.ops) and n in p.comparators:
                ok = True
            if not ok:
                findings.append(("R3", m.name, f"set value escapes `len`/`in`/`sorted`: {ast.unparse(p)[:60] if p else ''}",
                                 f"{m.relpath}:{n.lineno}", "iteration order of a set of bytes/str depends on hash randomisation"))
    # ---- R4 field objects immutable after construction
    for s in E.sites:
        t = s.node
        for tt in ast.walk(t):
            if isinstance(tt, ast.Attribute) and isinstance(tt.ctx, (ast.Store, ast.Del)) and tt.attr in FIELD_ATTRS:
                if (s.func.node.name != "__init__" and s.func.qualname not in ctor_helpers) \
                        or not (isinstance(tt.value, ast.Name) and tt.value.id == s.func.params[0]):
                    findings.append(("R4", s.func.qualname, f"store to field attribute .{tt.attr} outside its constructor", s.where, ""))
    for m in repo.modules.values():
        for c in m.classes.values():
            pass
    stats["memo_ok"] = memo_ok
    return findings, stats, E


def _effect_free_call(repo, E, m, call):
    """an import-time bare call of a package function that (with everything it reaches by resolved names) stores to nothing —
    no attribute/subscript store, no mutator call, no global/nonlocal — can only raise: a sanity check written as a helper"""
    if not isinstance(call.func, ast.Name):
        return False
    try:
        r = repo.resolve_binding(m, call.func.id)
    except AnalysisError:
        return False
    if r is None or r[0] != "func":
        return False
    from ..recursion import CallGraph
    cg = getattr(repo, "_callgraph", None)
    if cg is None:
        cg = repo._callgraph = CallGraph(repo)
    dirty = {s_.func.qualname for s_ in E.sites}
    seen, stack = set(), [r[1].qualname]
    while stack:
        q = stack.pop()
        if q in seen:
            continue
        seen.add(q)
        if q in dirty or q not in cg.funcs:
            return False
        fnode = cg.funcs[q][2].node
        if any(isinstance(n, (ast.Global, ast.Nonlocal, ast.Yield, ast.YieldFrom)) for n in ast.walk(fnode)):
            return False
        if cg.loose.get(q):
            # calls through attributes or passed-on function objects: receivers unknown — only the field/curve method
            # names resolved inside the package are followed; anything dirty among them refuses
            for t in cg.loose[q]:
                stack.append(t)
        stack.extend(cg.exact.get(q, ()))
    return True


def run(chk, repo, tier):
    chk.explanation = ("Every store site of the package (attribute/subscript/augmented stores, mutating method calls, del, "
                       "globals()) is classified by the origin of the written object with alias tracking and interprocedural "
                       "parameter-mutation summaries; hidden state, non-deterministic sources, in-place operator methods, "
                       "memo decorators and import-time effects are enumerated.")
    chk.rule("C20.R1", "no store to an object that is not allocated in the current activation (or self in __init__), "
                       "except reviewed sites", 40)
    chk.rule("C20.R2", "no global/nonlocal, in-place operator methods, mutable defaults, unreviewed memo decorators, import-time effects", 1)
    chk.rule("C20.R3", "no non-deterministic source: closed import list, no id/hash/open/print, no set-order leak", 1)
    chk.rule("C20.R4", "field objects are never written after construction", 1)
    chk.rule("C20.SELF", "embedded positive example: the analysis flags a constant written through an alias, a mutated "
                         "parameter, a written module dict and a helper mutating a constant", 4)
    chk.assumptions += ["hashlib, hmac, math and int/bytes methods are pure (trusted)",
                        "no dynamic attribute access with computed names, exec/eval or monkey-patching (checked: none present)"]
    chk.not_decided += ["purity of code outside the package (hashlib, hmac, eth_utils)"]
    # positive example first
    demo = Repo(root=repo.root, sources=POSITIVE_EXAMPLE)
    f0, _, _ = analyse(demo)
    keys = {(q, k) for r, q, k, w, d in f0}
    want = [("py_ecc.demo.f", "store t[0] [module]"), ("py_ecc.demo.f", "mutating-call xs.append [param]"),
            ("py_ecc.demo.f", "store CACHE[k] [module]")]
    for q, k in want:
        chk.ob("C20.SELF", q, k, (q, k) in keys, "positive example must be flagged", "embedded", nontrivial=True)
    chk.ob("C20.SELF", "py_ecc.demo.g", "helper mutates a constant",
           any(q == "py_ecc.demo.g" and "passes module object" in k for q, k in keys),
           f"flags: {sorted(keys)}", "embedded")
    # the real tree
    findings, stats, E = analyse(repo)
    reviewed_hit = set()
    seen = set()
    for r, q, k, w, d in findings:
        if (q, k) in REVIEWED_STORES:
            reviewed_hit.add((q, k))
            chk.ob(f"C20.{r}", q, k, True, "reviewed: " + REVIEWED_STORES[(q, k)], w)
            continue
        if (r, q, k) in seen:
            continue
        seen.add((r, q, k))
        chk.ob(f"C20.{r}", q, k, False, d, w)
    for q, k, w, why in stats.pop("memo_ok"):
        chk.ob("C20.R2" if k.startswith("memoising decorator") else "C20.R1", q, k, True,
               "transparent memo (only this function reads and writes it): " + why, w)
    for s in E.sites:
        if site_ok(s):
            chk.ob("C20.R1", s.func.qualname, s.key() + f" @{norm_stmt(s.node)[:60]}", True, "", s.where,
                   nontrivial=s.origin != IMMUT)
    for q in REVIEWED_MEMO:
        try:
            repo.func(q)
            chk.ob("C20.R2", q, "reviewed memo (cached_property)", True, REVIEWED_MEMO[q], repo.func(q).where)
        except AnalysisError:
            pass
    nglob = sum(1 for m in repo.modules.values() for n in ast.walk(m.tree) if isinstance(n, (ast.Global, ast.Nonlocal)))
    chk.ob("C20.R2", "py_ecc", "global/nonlocal declarations", nglob == 0, f"{nglob} found", "")
    ninpl = sum(1 for m in repo.modules.values() for c in m.classes.values() for mn in c.methods if mn in INPLACE_DUNDERS)
    chk.ob("C20.R2", "py_ecc", "in-place operator methods", ninpl == 0, f"{ninpl} found", "")
    nimp = sum(1 for m in repo.modules.values() for n in ast.walk(m.tree) if isinstance(n, (ast.Import, ast.ImportFrom)))
    chk.ob("C20.R3", "py_ecc", "imports within the closed list", not any(r == "R3" for r, *_ in findings), f"{nimp} import statements", "")
    chk.ob("C20.R4", "py_ecc.fields", "field attributes written only in constructors", not any(r == "R4" for r, *_ in findings), "", "")
    chk.note_analysed(**stats)


MANIFEST = {
    "level": "other",
    "technique": "static analysis: effect analysis over every store site (origin/alias tracking, interprocedural "
                 "parameter-mutation summaries), plus enumeration of hidden-state and non-determinism sources",
    "text": "Decides for all call sequences that no function of the package writes to its arguments, to module- or class-level "
            "objects or to field objects after construction, that no in-place operator, memo (beyond three reviewed "
            "cached_property uses and memo tables proved transparent: one reader/writer, key determines the stored value by "
            "def-use dataflow, hit used like a fresh value), global state or non-deterministic source exists; hence results "
            "depend only on arguments and never-written constants. An embedded positive example must be flagged on every run.",
    "note": "Flow-insensitive alias tracking (over-approximate). Trusted: purity of hashlib/hmac/math/builtins; absence of "
            "dynamic features is itself checked (exec/eval/setattr flagged).",
}
