"""C17 — subgroup test exact; cofactor clearing lands in the subgroup."""
from __future__ import annotations

from math import isqrt

from ..term import AnalysisError, Term, var, show
from ..interp import World, Interp, _hashable
from ..nt import is_prime
from ..spec.params import BLS

G2P = "py_ecc.bls.g2_primitives"
CC = "py_ecc.optimized_bls12_381.optimized_clear_cofactor"
OC = "py_ecc.optimized_bls12_381.optimized_curve"


def opaque(op, sort):
    def s(it, f, args, kwargs, node):
        return Term(op, tuple(_hashable(a) for a in args), sort)
    return s


def run(chk, repo, tier):
    chk.explanation = ("subgroup_check and the two cofactor-clearing functions are reduced to terms over the optimized BLS12-381 "
                       "module's multiply/is_inf; the scalar constants are folded and compared with values re-derived from the "
                       "curve parameter x; the group orders are checked with integer arithmetic (CM equation for the twist).")
    # restate C13
    from . import C13 as _dep_C13
    from ..report import SubCheck as _SubCheck
    chk.rule("C17.R4", "multiply / is_inf / double / add of the optimized BLS12-381 module are the group law on every path (C13 re-stated): [r]P and [h_eff]P are what the terms say", 20)
    _sub = _SubCheck()
    _err = None
    try:
        _dep_C13.run(_sub, repo, tier)
    except AnalysisError as _e:
        _err = _e
    for _rule, _construct, _key, _ok, _detail, _where in _sub.obs:
        if True and ("bls12_381" in _construct):
            chk.ob("C17.R4", _construct, f"[{_rule}] {_key}", _ok, _detail, _where)
    if _err is not None and all(o[3] for o in _sub.obs):
        raise _err
    # … and multiply is scalar multiplication for every curve point, also outside the subgroup (C07.R3 re-stated)
    from . import C07 as _dep_C07
    _sub7 = _SubCheck()
    _err7 = None
    try:
        _dep_C07.run(_sub7, repo, "quick")
    except AnalysisError as _e:
        _err7 = _e
    for _rule, _construct, _key, _ok, _detail, _where in _sub7.obs:
        if _rule == "C07.R3" and "optimized_bls12_381" in _construct:
            chk.ob("C17.R4", _construct, f"[{_rule}] {_key}", _ok, _detail, _where)
    if _err7 is not None and all(o[3] for o in _sub7.obs):
        raise _err7
    chk.rule("C17.R1", "subgroup_check(P) is is_inf(multiply(P, r)), r the prime group order, on the optimized BLS module's functions", 2)
    chk.rule("C17.R2", "H_EFF_G1, H_EFF_G2, G2_COFACTOR equal the values derived from x; clearing = multiply by them", 5)
    chk.rule("C17.R3", "#E(F_p) = h1·r; h2·r is the order of a sextic twist of E over F_p²; h2 | H_EFF_G2", 3)
    chk.not_decided += ["[r]P = O ⇔ P in the prime-order subgroup (group theory, holds because r is prime and r² ∤ #E)",
                        "that 1 − x clears the G1 cofactor (RFC 9380 §8.8.1 statement; h1 ∤ 1 − x)"]
    chk.depends_on += ["C07", "C13"]
    w = World(repo)
    m = repo.module(G2P)
    # a projective triple of unknown field elements (any representative, on or off the curve)
    P = (var("Px", "field"), var("Py", "field"), var("Pz", "field"))
    f = repo.func(f"{G2P}.subgroup_check")
    mul = repo.resolve_binding(m, "multiply")
    inf = repo.resolve_binding(m, "is_inf")
    ok_res = repo.is_func(mul, f"{OC}.multiply") and repo.is_func(inf, f"{OC}.is_inf")
    chk.ob("C17.R1", f.qualname, "multiply / is_inf resolve to the optimized BLS12-381 curve module", bool(ok_res),
           f"multiply -> {mul[1].qualname if mul else None}, is_inf -> {inf[1].qualname if inf else None}", f.where)
    from ..interp import enumerate_paths
    want = Term("is_inf", (Term("multiply", (_hashable(P), BLS["r"]), "point"),), "bool")
    infP = Term("is_inf", (_hashable(P),), "bool")
    spaths = enumerate_paths(w, lambda it: it.call_func(f, [P], {}),
                             summaries={mul[1].qualname: opaque("multiply", "point"), inf[1].qualname: opaque("is_inf", "bool")})
    bad = []
    for pth in spaths:
        pd = " ".join(pth.branch_lines()) or "(straight line)"
        if pth.outcome != "return":
            bad.append(f"raises {pth.value.clsname()} on path {pd}")
            continue
        v = pth.value
        facts = {a: t for a, t, _w in pth.facts}
        if v is want:
            continue
        if isinstance(v, bool) and want in facts and facts[want] is v:
            continue                # the value of the test itself, returned through a branch
        if v is True and facts.get(infP) is True:
            continue                # [r]O = O: the identity is a member
        bad.append(f"returns {show(v)[:120]} on path {pd}")
    chk.ob("C17.R1", f.qualname, "returns is_inf(multiply(P, r)), r = x⁴ − x² + 1 prime, on every path", not bad and bool(spaths) and is_prime(BLS["r"]),
           "; ".join(bad[:2]) or f"{len(spaths)} path(s)", f.where)
    # ---- constants
    it0 = Interp(w)
    cm = repo.module("py_ecc.optimized_bls12_381.constants")
    h1c, h2c = it0.eval_global(cm, "H_EFF_G1"), it0.eval_global(cm, "H_EFF_G2")
    g2cof = it0.eval_global(repo.module("py_ecc.bls.constants"), "G2_COFACTOR")
    chk.ob("C17.R2", "py_ecc.optimized_bls12_381.constants.H_EFF_G1", "= 1 − x", h1c == BLS["h_eff_g1"], hex(h1c), cm.relpath)
    chk.ob("C17.R2", "py_ecc.optimized_bls12_381.constants.H_EFF_G2", "= h2·(3x² − 3)", h2c == BLS["h_eff_g2"], hex(h2c)[:60], cm.relpath)
    chk.ob("C17.R2", "py_ecc.bls.constants.G2_COFACTOR", "= h2(x)", g2cof == BLS["h2"], hex(g2cof)[:60], "py_ecc/bls/constants.py")
    ccm = repo.module(CC)
    cmul = repo.resolve_binding(ccm, "multiply")
    csumm = {cmul[1].qualname: opaque("multiply", "point")}
    for nm_ in ("is_inf", "eq", "is_on_curve", "normalize"):
        rb = repo.resolve_binding(ccm, nm_)
        if rb and rb[0] == "func":
            csumm[rb[1].qualname] = opaque(nm_, "bool" if nm_ in ("is_inf", "eq", "is_on_curve") else "point")
    for fn, const, nm in (("multiply_clear_cofactor_G1", BLS["h_eff_g1"], "H_EFF_G1"), ("multiply_clear_cofactor_G2", BLS["h_eff_g2"], "H_EFF_G2")):
        ff = repo.func(f"{CC}.{fn}")
        cpaths = enumerate_paths(w, lambda it, ff=ff: it.call_func(ff, [P], {}), summaries=csumm)
        wantc = Term("multiply", (_hashable(P), const), "point")
        badc = []
        for pth in cpaths:
            pd = " ".join(pth.branch_lines()) or "(straight line)"
            if pth.outcome != "return":
                badc.append(f"raises {pth.value.clsname()} on path {pd}")
            elif pth.value is not wantc:
                badc.append(f"returns {show(pth.value)[:120]} on path {pd}")
        chk.ob("C17.R2", ff.qualname, f"multiply(P, {nm}) on the optimized BLS curve module, on every path",
               not badc and bool(cpaths) and repo.is_func(cmul, f"{OC}.multiply"), "; ".join(badc[:2]) or f"{len(cpaths)} path(s)", ff.where)
    # the wrappers hash_to_curve exports under the RFC's names
    H2C = "py_ecc.bls.hash_to_curve"
    hm = repo.module(H2C)
    for nm, const, cn in (("clear_cofactor_G1", BLS["h_eff_g1"], "H_EFF_G1"), ("clear_cofactor_G2", BLS["h_eff_g2"], "H_EFF_G2")):
        if nm not in hm.bindings:
            continue
        try:
            fobj = Interp(w).eval_global(hm, nm)
        except AnalysisError as e:
            chk.ob("C17.R2", f"{H2C}.{nm}", f"multiply(P, {cn})", False, f"not resolvable: {e}", hm.relpath)
            continue
        wantc = Term("multiply", (_hashable(P), const), "point")
        wpaths = enumerate_paths(w, lambda it, fobj=fobj: it.call(fobj, [P], {}, None), summaries=csumm)
        badw = [f"returns {show(p_.value)[:120]}" if p_.outcome == "return" else f"raises {p_.value.clsname()}"
                for p_ in wpaths if p_.outcome != "return" or p_.value is not wantc]
        chk.ob("C17.R2", f"{H2C}.{nm}", f"multiply(P, {cn}) on every path", not badw and bool(wpaths), "; ".join(badw[:2]), hm.relpath)
    # ---- orders
    p, rr, t, h1, h2 = BLS["p"], BLS["r"], BLS["t"], BLS["h1"], BLS["h2"]
    chk.ob("C17.R3", "oracle", "#E(F_p) = p + 1 − t = h1·r, t = x + 1 (Hasse: t² ≤ 4p)", p + 1 - t == h1 * rr and t * t <= 4 * p, "", "vstatic/spec/params.py")
    t2 = t * t - 2 * p
    d = 4 * p * p - t2 * t2
    f2 = isqrt(d // 3)
    cm_ok = d % 3 == 0 and 3 * f2 * f2 == d
    cands = {p * p + 1 - tt for tt in (t2, -t2)}
    if cm_ok:
        for s1 in (1, -1):
            for s2 in (1, -1):
                num = s1 * t2 + s2 * 3 * f2
                if num % 2 == 0:
                    cands.add(p * p + 1 - num // 2)
    chk.ob("C17.R3", "oracle", "h2·r is one of the six twist orders of E over F_p² (CM equation 4p² − t2² = 3f²)",
           cm_ok and h2 * rr in cands, f"{len(cands)} candidate orders", "vstatic/spec/params.py")
    chk.ob("C17.R3", "oracle", "h2 | H_EFF_G2 (so [H_EFF_G2]P has order dividing r for every P ∈ E'(F_p²)); gcd(r, h2) = 1",
           BLS["h_eff_g2"] % h2 == 0 and h2 % rr != 0, "", "vstatic/spec/params.py")


MANIFEST = {
    "level": "other",
    "technique": "static analysis: term reduction of the subgroup test and cofactor clearing, constant folding and integer "
                 "number-theoretic validation of the cofactors and group orders against the curve parameter",
    "text": "Decides that subgroup_check is exactly is_inf([r]P) on the verified curve functions with r the prime order, that "
            "cofactor clearing is multiplication by constants equal to the RFC's effective cofactors re-derived from x, and that "
            "h2·r is a sextic-twist order with h2 | h_eff — which gives 'lands in the subgroup' for G2. The two group-theory "
            "facts listed under not_decided are assumed.",
    "note": "R4 re-states C13 and the ladder schema of the optimized BLS multiply (C07.R3): [r]P and [h_eff]P are what the terms say for every curve point, also of small order. Layered on C07/C13 (multiply, is_inf). Oracle: BLS12 parameter polynomials in vstatic/spec/params.py.",
}
