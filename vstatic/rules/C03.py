"""C03 — aggregation is the group sum; aggregate checks accept only it
(decided clauses: fold shape, refusals, no silent zip truncation, suite
preconditions, loop-body exponent)."""
from __future__ import annotations

from ..term import AnalysisError, Term, var, show, t_eq, t_len, atom_of
from ..interp import Interp, SymSeq, _hashable
from ..bls_model import Model, SUITES, CS, hp
from ..bls_rules import has_fact, len_gate
from ..bilinear import Bilinear, accepting_equation
from ..ranges import interval_of_facts, show_set, INF
from ..poly import Poly
from ..fieldmodel import FieldVal


def is_identity_const(v):
    """hashable form of a folded point constant with z == 0"""
    if isinstance(v, tuple) and len(v) == 3:
        z = v[2]
        if isinstance(z, Term) and z.op == "fieldval":
            val = z.args[1]
            return val == 0 or (isinstance(val, tuple) and not any(val))
    return False


def fold_shape(v, enc_op, dec_op, seqname):
    """v == enc(fold(init=identity, body=add(acc, dec(elem)) in either order, seq))"""
    if not (isinstance(v, Term) and v.op == enc_op and len(v.args) == 1):
        return False, f"result is not {enc_op}(..): {show(v)[:160]}"
    f = v.args[0]
    if not (isinstance(f, Term) and f.op == "fold"):
        return False, f"encoded value is not a fold over the input: {show(f)[:160]}"
    name, init, body, acc, seq = f.args
    if not is_identity_const(init):
        return False, f"accumulator is not seeded with the identity: {show(init)[:160]}"
    if not (isinstance(seq, Term) and seq.op == "symseq" and seq.args[0] == seqname):
        return False, f"loop does not range over the whole parameter {seqname}: {show(seq)[:120]}"
    elem = Term("elem", (seqname,), "bytes")
    want = Term(dec_op, (elem,), "point")
    if isinstance(body, Term) and body.op == "add" and len(body.args) == 2:
        a, b = body.args
        if (a is acc and b is want) or (b is acc and a is want):
            return True, "acc = add(acc, decode(elem)) seeded with the identity over the whole list"
    return False, f"loop update is not acc = add(acc, {dec_op}(elem)): {show(body)[:200]}"


def run(chk, repo, tier):
    chk.explanation = ("Aggregate/_AggregatePKs are summarised as folds over a symbolic sequence and compared with the "
                       "specification's fold; length, non-emptiness, distinctness and zip-equality gates are checked on the "
                       "facts holding at the sinks; the aggregate verification equation is evaluated in the formal bilinear domain.")
    chk.rule("C03.R8", "the sum is the group sum and the identity aggregate is admitted: the optimized BLS12-381 group law (C07.R2) and "
                       "subgroup_check = is_inf([r]P) (C17.R1) re-stated", 10)
    from . import C07 as _dep_C07, C17 as _dep_C17
    from ..report import restate as _restate
    _restate(chk, "C03.R8", _dep_C07, repo, lambda r, c: r == "C07.R2" and "optimized_bls12_381" in c)
    _restate(chk, "C03.R8", _dep_C17, repo, lambda r, c: r == "C17.R1")
    chk.rule("C03.R1", "Aggregate/_AggregatePKs return encode(identity + Σ decode(s)) over the whole input", 4)
    chk.rule("C03.R2", "Aggregate refuses the empty list (exactly) and mis-sized entries with ValidationError", 3)
    chk.rule("C03.R3", "every zip of caller sequences is dominated by a length-equality gate", 2)
    chk.rule("C03.R4", "n >= 1 gate dominates the pairing loop / key aggregation; every key validated; basic suite: distinct-messages gate", 8)
    chk.rule("C03.R5", "tested product is Π e(H(m_i), PK_i) · e(sig, -G1) with the second factor exactly once; honest aggregate ⇒ exponent 0", 4)
    chk.rule("C03.R6", "the pairing product is accumulated in fresh objects: no in-place operator on field classes, no store to shared "
                       "state (C20's obligations re-stated) — otherwise one verification leaks into the next", 10)
    chk.not_decided += ["'accepts exactly the sum' (needs bilinearity/non-degeneracy, C05)",
                        "order/grouping independence needs associativity of the group law (C07, not decided there)"]
    chk.depends_on += ["C05", "C07", "C04"]
    from . import C20
    from ..report import SubCheck
    sub = SubCheck()
    C20.run(sub, repo, tier)
    for rule, construct, key, ok, detail, where in sub.obs:
        relevant = construct.startswith("py_ecc.fields") or "fields/" in str(where) or \
            any(n in construct for n in ("Aggregate", "_CoreAggregateVerify", "_AggregatePKs", "pairing", "miller_loop"))
        if relevant:
            chk.ob("C03.R6", construct, f"purity [{rule}] {key}", ok, detail, where)
    # 'an aggregate that is altered is rejected' rests on every non-canonical encoding being refused by the decoders:
    # the decision tables of decompress_G1/G2 (C11.R1) re-stated
    chk.rule("C03.R7", "every altered encoding of the aggregate (or of a key) is refused or decodes to a different point: the decoder "
                       "decision tables of C11.R1 re-stated", 60)
    from . import C11 as _dep_C11
    _sub11 = SubCheck()
    _err11 = None
    try:
        _dep_C11.run(_sub11, repo, tier)
    except AnalysisError as _e:
        _err11 = _e
    _known = {(f["rule"], f["construct"], f["key"]) for f in chk.known.get("findings", []) if f["property"] == "C11"}
    for rule, construct, key, ok, detail, where in _sub11.obs:
        if rule == "C11.R1" and "decompress_" in construct and (rule, construct, key) not in _known:
            chk.ob("C03.R7", construct, f"[{rule}] {key}", ok, detail, where)
    if _err11 is not None and all(o[3] for o in _sub11.obs):
        raise _err11
    M = Model(repo, "P")
    it0 = Interp(M.world)
    G1c = hp(it0.eval_global(repo.module(CS), "G1"))
    # ---------------------------------------------------------------- R1 + R2
    for suite in SUITES:
        sigs = M.sym_seq("signatures")
        paths, m = M.paths(suite, "Aggregate", [sigs])
        construct = f"{CS}.{suite}.Aggregate"
        rets = [p for p in paths if p.outcome == "return"]
        msgs = []
        ok = bool(rets)
        for p in rets:
            o, why = fold_shape(_hashable(p.value), "G2_to_signature", "signature_to_G2", "signatures")
            ok = ok and o
            msgs.append(why)
        chk.ob("C03.R1", construct, "fold shape", ok, "; ".join(sorted(set(msgs))) or "no returning path", m.where)
        # R2: accepted lengths exactly [1, inf); element gate; rejections are ValidationError
        L = sigs.length
        accept = []
        prob = []
        for p in paths:
            facts = [(a, t) for a, t, _ in p.facts]
            lo, hi, holes, others = interval_of_facts(facts, L)
            lo = max(lo, 0)
            if p.outcome == "return":
                from ..ranges import cut_holes
                accept.extend(cut_holes(lo, hi, holes))
                for ev in p.events:
                    if ev["kind"] == "decode" and not len_gate(ev["facts"], ev["arg"], 96):
                        prob.append(f"signature_to_G2 at {ev['where']} not dominated by the 96-byte gate")
            else:
                cn = p.value.clsname()
                # a failed decode may raise ValueError (decoder's own); gates must raise ValidationError
                decode_failed = any(isinstance(a, Term) and a.op.startswith("decodes_") and not t for a, t in facts)
                if cn != "eth_utils.ValidationError" and not decode_failed:
                    prob.append(f"{cn} raised at {p.value.where}")
        from ..ranges import normalise
        acc_set = normalise(accept)
        ok = acc_set == [(1, INF)] and not prob
        chk.ob("C03.R2", construct, "accepted list lengths == [1, ∞), entries length-gated", ok,
               f"accepted lengths {show_set(acc_set)}" + ("; " + "; ".join(prob) if prob else ""), m.where)
    # _AggregatePKs
    pks = M.sym_seq("PKs")
    paths, m = M.paths("G2ProofOfPossession", "_AggregatePKs", [pks])
    rets = [p for p in paths if p.outcome == "return"]
    ok, msgs = bool(rets), []
    for p in rets:
        o, why = fold_shape(_hashable(p.value), "G1_to_pubkey", "pubkey_to_G1", "PKs")
        ok = ok and o
        msgs.append(why)
    chk.ob("C03.R1", f"{CS}.G2ProofOfPossession._AggregatePKs", "fold shape", ok,
           "; ".join(sorted(set(msgs))) or "no returning path", m.where)
    # ---------------------------------------------------------------- R3 / R4 / R5 on AggregateVerify
    nzip = 0
    for suite in SUITES:
        PKs, msgs_, sig = M.sym_seq("PKs"), M.sym_seq("messages"), M.sym_bytes("signature")
        paths, m = M.paths(suite, "AggregateVerify", [PKs, msgs_, sig])
        construct = f"{CS}.{suite}.AggregateVerify"
        zbad, nbad, dbad, kbad = {}, {}, {}, {}
        npair = 0
        for p in paths:
            for ev in p.events:
                if ev["kind"] == "zip":
                    nzip += 1
                    a, b = ev["lens"][0], ev["lens"][1]
                    if not has_fact(ev["facts"], t_eq(a, b), True):
                        zbad.setdefault(ev["where"], (ev, p))
                elif ev["kind"] == "pairing":
                    npair += 1
                    lo, hi, holes, _ = interval_of_facts(list(ev["facts"].items()), PKs.length)
                    if lo < 1:
                        nbad.setdefault(ev["where"], (ev, p))
                    Pk = ev["P"]
                    if isinstance(Pk, Term) and Pk.op == "pubkey_to_G1":
                        if not (has_fact(ev["facts"], Term("subgroup_check", (Pk,), "bool"), True)
                                and has_fact(ev["facts"], Term("is_inf", (Pk,), "bool"), False)):
                            kbad.setdefault(ev["where"], (ev, p))
                    if suite == "G2Basic":
                        nset = Term("len_set", (_hashable(msgs_),), "int")
                        # len(set(X)) <= len(X) always, so "not len(set(X)) < len(X)" is equality as well
                        if not (has_fact(ev["facts"], t_eq(t_len(msgs_), nset), True)
                                or has_fact(ev["facts"], Term("lt", (nset, t_len(msgs_)), "bool"), False)):
                            dbad.setdefault(ev["where"], (ev, p))
        if npair == 0:
            raise AnalysisError(f"{construct}: no pairing evaluation found")
        for where, (ev, p) in zbad.items():
            chk.ob("C03.R3", construct, f"zip at {where.split('(')[-1]} without length-equality gate", False,
                   f"zip({', '.join(show(l) for l in ev['lens'])}) at {where}; path {' '.join(p.branch_lines()[-6:])}", where)
        if not zbad:
            chk.ob("C03.R3", construct, "zip sites gated by len equality", True, "", m.where)
        chk.ob("C03.R4", construct, "n >= 1 dominates every pairing", not nbad,
               "; ".join(f"pairing at {w} reachable with an empty key list" for w in nbad) or f"{npair} sink evaluations", m.where)
        chk.ob("C03.R4", construct, "every caller key reaching a pairing passed KeyValidate (subgroup member, not the identity)", not kbad,
               "; ".join(f"pairing at {w} takes a key that was not validated (an identity or non-subgroup key makes the check accept "
                         "aggregates that are not the sum)" for w in kbad) or "", m.where)
        if suite == "G2Basic":
            chk.ob("C03.R4", construct, "distinct-messages gate dominates every pairing", not dbad,
                   "; ".join(f"pairing at {w} reachable without len(messages) == len(set(messages))" for w in dbad) or "", m.where)
        # R5: structure of the tested product on accepting paths
        accp = [p for p in paths if p.outcome == "return" and p.value is not False]
        probs = []
        for p in accp:
            X = accepting_equation(p.value)
            if X is None:
                probs.append(f"accepting value {show(p.value)[:120]}")
                continue
            try:
                e, nfe = Bilinear(G1c, roundtrip=False).gt(X)
            except AnalysisError as ex:
                probs.append(str(ex))
                continue
            sums = [(k, c) for k, c in e.items() if k[2]]
            singles = [(k, c) for k, c in e.items() if not k[2]]
            ok = (len(sums) == 1 and len(singles) == 1 and nfe == 1
                  and sums[0][1] == Poly.const(1) and singles[0][1] == Poly.const(-1)
                  and isinstance(singles[0][0][0], Term) and singles[0][0][0].op == "signature_to_G2" and singles[0][0][1] == "G1"
                  and isinstance(sums[0][0][0], Term) and sums[0][0][0].op == "hash_to_G2"
                  and isinstance(sums[0][0][1], Term) and sums[0][0][1].op == "pubkey_to_G1")
            if not ok:
                probs.append(f"exponent vector {({show(k)[:120]: repr(c) for k, c in e.items()})}, final exponentiations {nfe}")
        chk.ob("C03.R5", construct, "Π e(H(m_i),PK_i) · e(sig,-G1), one final exponentiation", not probs and bool(accp),
               "; ".join(probs[:2]) or f"{len(accp)} accepting paths", m.where)
    if nzip < 2:
        raise AnalysisError(f"only {nzip} zip evaluations over caller sequences found")
    # FastAggregateVerify: n >= 1 dominates key aggregation; honest run exponent
    paths, m = M.paths("G2ProofOfPossession", "FastAggregateVerify", [M.sym_seq("PKs"), M.sym_bytes("message"), M.sym_bytes("signature")])
    construct = f"{CS}.G2ProofOfPossession.FastAggregateVerify"
    L = M.sym_seq("PKs").length
    bad = []
    nacc = 0
    for p in paths:
        if p.outcome == "return" and p.value is not False:
            nacc += 1
            lo, hi, holes, _ = interval_of_facts(list(p.interp.facts.items()), L)
            if lo < 1:
                bad.append(p)
    chk.ob("C03.R4", construct, "n >= 1 on every accepting path", not bad and nacc > 0,
           f"{nacc} accepting paths" if not bad else f"accepting path with possibly empty key list: {' '.join(bad[0].branch_lines()[-6:])}", m.where)
    # honest aggregate (P-mode, round trip rewrite): exponent vanishes
    SKe = Term("elem", ("SKs",), "int")
    Me = Term("elem", ("messages",), "bytes")
    n = Term("len", (var("SKs", "seq"),), "int")
    for suite in SUITES:
        construct = f"{CS}.{suite}.Aggregate∘Sign/AggregateVerify"
        pk_p, _ = M.paths(suite, "SkToPk", [SKe])
        sg_p, _ = M.paths(suite, "Sign", [SKe, Me])
        pk = [p.value for p in pk_p if p.outcome == "return"]
        sg = [p.value for p in sg_p if p.outcome == "return"]
        if len(pk) != 1 or len(sg) != 1:
            chk.ob("C03.R5", construct, "single honest path", False, f"{len(pk)}/{len(sg)} returning paths", "")
            continue
        PKs = SymSeq("PKs", pk[0], n)
        MSGs = SymSeq("messages", Me, n)
        SIGs = SymSeq("signatures", sg[0], n)
        ag_p, ma = M.paths(suite, "Aggregate", [SIGs])
        ag = [p.value for p in ag_p if p.outcome == "return"]
        if len(ag) != 1:
            chk.ob("C03.R5", construct, "single honest path", False, f"{len(ag)} Aggregate returning paths", ma.where)
            continue
        v_p, mv = M.paths(suite, "AggregateVerify", [PKs, MSGs, _hashable(ag[0])])
        accp = [p for p in v_p if p.outcome == "return" and p.value is not False]
        probs = []
        for p in accp:
            X = accepting_equation(p.value)
            try:
                e, nfe = Bilinear(G1c).gt(X) if X is not None else ({"?": 1}, 0)
            except AnalysisError as ex:
                probs.append(str(ex))
                continue
            if e or nfe != 1:
                probs.append(f"residual exponent {({show(k)[:160]: repr(c) for k, c in e.items()})}")
        # no refusal of an honest aggregate other than through a validation predicate, the n >= 1 gate, or (basic suite
        # only) the distinct-messages precondition
        spurious = []
        nmsg = t_len(MSGs) if False else None
        for p in v_p:
            if p.outcome == "raise":
                spurious.append((p, f"raises {p.value.clsname()} at {p.value.where}"))
                continue
            if p.outcome == "return" and p.value is False:
                just = []
                for a, t, _ in p.facts:
                    if not isinstance(a, Term):
                        continue
                    if (a.op == "is_inf" and t) or (a.op in ("subgroup_check", "pairing_args_on_curve") and not t) \
                            or (a.op.startswith("decodes_") and not t):
                        just.append(a)
                    elif suite == "G2Basic" and "len_set" in show(a):
                        just.append(a)
                    elif _is_n_gate(a, t, n):
                        just.append(a)
                if not just:
                    spurious.append((p, f"returns False on path {' '.join(p.branch_lines()[-3:])} with facts "
                                        f"{[(show(a)[:80], t) for a, t, _ in p.facts][-3:]}"))
        chk.ob("C03.R5", construct, "an honest aggregate is refused only by a validation predicate, the n >= 1 gate"
               + (", or the distinct-messages precondition" if suite == "G2Basic" else ""), not spurious,
               "; ".join(d for _p, d in spurious[:2]) or f"{len(v_p)} paths", mv.where)
        chk.ob("C03.R5", construct, "honest aggregate ⇒ exponent ≡ 0", not probs and bool(accp),
               "; ".join(probs[:2]) or f"{len(accp)} accepting paths", mv.where)


def _is_n_gate(a, t, n):
    """a decided comparison of the common sequence length with a constant that is false/true exactly for n < 1"""
    from ..ranges import interval_of_facts as _iv
    lo, hi, _holes, _ = _iv([(a, t)], n)
    return hi < 1


MANIFEST = {
    "level": "other",
    "technique": "static analysis: loop summarisation of the aggregation folds over a symbolic sequence, guard dominance "
                 "(length equality before zip, n>=1, distinct messages) on path facts, formal bilinear exponent of the "
                 "aggregate equation",
    "text": "Decides for sequences of any length: Aggregate and _AggregatePKs are identity-seeded folds of add over every decoded "
            "element; the empty list and mis-sized entries are refused; no zip over caller sequences can truncate silently; the "
            "n>=1 and (basic suite) distinct-messages gates dominate every pairing; the tested product has the specified form and "
            "vanishes for honest aggregates. 'Accepts exactly the sum' needs bilinearity (not decided).",
    "note": "Generic-element abstraction of loops (per-element independence checked by havocking loop-carried state). "
            "Conditional on C05, C07 (commutativity/associativity), C11.",
}
