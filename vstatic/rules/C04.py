"""C04 — verification is total and rejects malformed / unsafe input.

R1 exception escape (path-sensitive): no path of the 11 entry-point instances
   ends in a raise; every return value is a boolean.
R2 typestate at the pairing sinks and at accepting exits.
R3 length predicates accept exactly bytes of length 48 / 96, and every byte
   decoder call is dominated by the matching length gate.
R4 KeyValidate: True only after decode, not-infinity and subgroup check of the
   one decoded value; handler returns False.
"""
from __future__ import annotations

from ..term import AnalysisError, Term, show, t_eq, t_len, subterms
from ..bls_model import Model, SUITES, CS, hp
from ..bls_rules import predicate_accept_set, has_fact, len_gate
from ..ranges import show_set

ENTRY = {
    "KeyValidate": lambda M: [M.sym_bytes("PK")],
    "Verify": lambda M: [M.sym_bytes("PK"), M.sym_bytes("message"), M.sym_bytes("signature")],
    "AggregateVerify": lambda M: [M.sym_seq("PKs"), M.sym_seq("messages"), M.sym_bytes("signature")],
    "FastAggregateVerify": lambda M: [M.sym_seq("PKs"), M.sym_bytes("message"), M.sym_bytes("signature")],
    "PopVerify": lambda M: [M.sym_bytes("PK"), M.sym_bytes("proof")],
}
POP_ONLY = {"FastAggregateVerify", "PopVerify"}
DEC_LEN = {"pubkey_to_G1": 48, "signature_to_G2": 96}


def entry_instances():
    for s in SUITES:
        for e in ENTRY:
            if e in POP_ONLY and s != "G2ProofOfPossession":
                continue
            yield s, e


def point_ok(facts, X, need_noninf):
    ok = has_fact(facts, Term("subgroup_check", (X,), "bool"), True)
    if need_noninf:
        ok = ok and has_fact(facts, Term("is_inf", (X,), "bool"), False)
    return ok


def _transformed_input(arg):
    """the decoded byte string is built from a caller's value by slicing / concatenation / conversion instead of being that value"""
    from ..term import subterms
    if not isinstance(arg, Term):
        return False
    if arg.op in ("var", "elem", "G1_to_pubkey", "G2_to_signature"):
        return False
    return any(isinstance(t, Term) and t.op in ("var", "elem") and t.sort in ("bytes", "any", "seq") for t in subterms(arg))


MYPY_FLAGS = ["--check-untyped-defs", "--disallow-any-generics", "--disallow-incomplete-defs", "--disallow-subclassing-any",
              "--disallow-untyped-calls", "--disallow-untyped-decorators", "--disallow-untyped-defs", "--ignore-missing-imports",
              "--strict-equality", "--strict-optional", "--warn-redundant-casts", "--warn-return-any", "--warn-unused-configs",
              "--no-incremental", "--cache-dir", "/dev/null", "--no-error-summary", "--config-file", ""]


def mypy_cross_reference(chk, repo):
    """thorough tier: the repository's own type checker (mypy, shipped in the repository's environment) with the repository's
    strict settings must report nothing on the current tree — the evidence behind 'type-guard raises are dead for internal
    callers' and a cross-reference for the resolver (a call that does not type-check is a call the resolver may misread)"""
    import subprocess
    import sys
    from ..loader import REPO
    chk.rule("C04.R6", "thorough: mypy with the repository's strict settings reports no error on py_ecc (internal callers are well-typed)", 1)
    try:
        import mypy  # noqa: F401
    except Exception:
        chk.assumptions.append("mypy is not importable in this environment: the type cross-reference was not run")
        chk.ob("C04.R6", "py_ecc", "mypy available", True, "mypy not importable: cross-reference skipped (listed under assumptions)", "")
        return
    r = subprocess.run([sys.executable, "-m", "mypy", "py_ecc"] + MYPY_FLAGS, cwd=str(REPO), capture_output=True, text=True)
    lines = [l for l in (r.stdout + r.stderr).splitlines() if ": error:" in l]
    chk.ob("C04.R6", "py_ecc", "mypy --strict-ish (repository settings): 0 errors", r.returncode == 0 and not lines,
           "; ".join(lines[:3]) or f"exit {r.returncode}", "py_ecc")


def run(chk, repo, tier):
    chk.explanation = ("Abstract evaluation of the five verification entry points of each ciphersuite on symbolic "
                       "byte strings / sequences (decoders inlined, curve operations opaque), all paths enumerated; "
                       "obligations are stated on path outcomes, on the facts that hold at pairing call sites and on the "
                       "exact accepted sets of the length predicates.")
    chk.rule("C04.R1", "no input-triggered raise escapes a verification entry point; results are booleans", 11)
    chk.rule("C04.R2", "pairing arguments are subgroup-checked (keys also non-identity); accepting exits carry all gates", 11)
    chk.rule("C04.R3", "length predicates accept exactly bytes of length 48/96 and dominate every byte decoder call", 6 + 11)
    chk.rule("C04.R4", "KeyValidate returns True only for a decoded, non-identity, subgroup point", 3)
    chk.rule("C04.R5", "'not the canonical encoding ⇒ False' rests on the decoders refusing every non-canonical word: the decision tables "
                       "of decompress_G1/G2 (C11.R1) re-stated", 24 + 70)
    from . import C11
    from ..report import SubCheck
    sub = SubCheck()
    C11.run(sub, repo, tier)
    known = {(f["rule"], f["construct"], f["key"]) for f in chk.known.get("findings", []) if f["property"] == "C11"}
    for rule_, construct, key, ok, detail, where in sub.obs:
        if rule_ == "C11.R1" and "decompress_" in construct and (rule_, construct, key) not in known:
            chk.ob("C04.R5", construct, f"canonical decoding [{rule_}] {key}", ok, detail, where)
    # the subgroup gate is exact only if subgroup_check is is_inf([r]P) on a multiply that is scalar multiplication for
    # *every* curve point (the keys that must be refused are exactly the points outside the subgroup): C17.R1 and the
    # ladder schema of the optimized BLS12-381 multiply (C07.R3) re-stated
    chk.rule("C04.R7", "the subgroup test refuses every point outside the subgroup: subgroup_check = is_inf([r]P) (C17.R1) and "
                       "optimized_bls12_381.multiply is scalar multiplication on every curve point (C07.R3) re-stated", 4)
    from . import C17, C07
    for dep, keep in ((C17, lambda r, c: r == "C17.R1"), (C07, lambda r, c: r == "C07.R3" and "optimized_bls12_381" in c)):
        subd = SubCheck()
        errd = None
        try:
            dep.run(subd, repo, "quick")
        except AnalysisError as e:
            errd = e
        for rule_, construct, key, ok, detail, where in subd.obs:
            if keep(rule_, construct):
                chk.ob("C04.R7", construct, f"[{rule_}] {key}", ok, detail, where)
        if errd is not None and all(o[3] for o in subd.obs):
            raise errd
    # "never raise" includes RecursionError (a RuntimeError: none of the entry points' except clauses catches it).  The
    # double-and-add multiply recurses one frame per scalar bit; the package provisions that at import time.
    chk.rule("C04.R8", "recursion budget: recursive functions below the verification entry points have a static depth bound (halving "
                       "measure, constant scalars at their call sites) and the recursion limit the package leaves in force at import "
                       "is at least CPython's default plus that depth", 1)
    from ..recursion import recursion_budget
    from ..interp import World as _World
    roots = [f"{CS}.{s_}.{e_}" for s_ in ("BaseG2Ciphersuite",) + tuple(SUITES) for e_ in ENTRY]
    for construct, key, ok, det, where in recursion_budget(repo, _World(repo), roots, [CS]):
        chk.ob("C04.R8", construct, key, ok, det, where)
    if tier == "thorough":
        mypy_cross_reference(chk, repo)
    chk.not_decided += ["implicit exceptions of builtins outside the modelled list (bytes +, len, set of bytes, zip)",
                        "type-guard raises inside field classes are assumed dead for well-typed internal callers"]
    chk.assumptions += ["inputs are bytes / sequences of bytes (the isinstance conjunct of the length predicates is checked by R3)",
                        "decoders and curve functions are pure (C20), so a second decode of the same bytes takes the same path",
                        "subgroup_check / is_inf are what C17 / C13 establish them to be",
                        "pairing() refuses off-curve arguments with ValueError (C05.R1)"]
    chk.depends_on += ["C05", "C11", "C13", "C17", "C20"]
    M = Model(repo, "D")
    G1c = Model_G1(M)
    total_paths = 0
    npair = 0
    for suite, entry in entry_instances():
        args = ENTRY[entry](M)
        paths, m = M.paths(suite, entry, args, force_bool=(entry == "KeyValidate"))
        total_paths += len(paths)
        construct = f"{CS}.{suite}.{entry}"
        # ---------------- R1
        escapes = {}
        nonbool = {}
        for p in paths:
            if p.outcome == "raise":
                escapes.setdefault((p.value.clsname(), p.value.where), p)
            else:
                v = p.value
                if not (isinstance(v, bool) or (isinstance(v, Term) and v.sort == "bool")):
                    nonbool.setdefault(show(v)[:80], p)
            for ev in p.events:
                if ev["kind"] == "implicit_raise":
                    escapes.setdefault((ev["exc"] + " (implicit)", ev["where"]), p)
        if not escapes and not nonbool:
            chk.ob("C04.R1", construct, "no escaping raise", True,
                   f"{len(paths)} paths, all end in a boolean return", m.where)
        for (exc, where), p in escapes.items():
            chk.ob("C04.R1", construct, f"{exc} raised at {where.split(':')[0]}({where.split('(')[-1]}", False,
                   f"{exc} raised at {where} escapes {suite}.{entry}; path branches: {' '.join(p.branch_lines()[-8:])}",
                   where)
        for k, p in nonbool.items():
            chk.ob("C04.R1", construct, f"non-boolean result {k}", False,
                   f"returns {k}; path {' '.join(p.branch_lines()[-8:])}", m.where)
        # ---------------- R2 / R3b
        sink_bad = {}
        dec_bad = {}
        copy_bad = {}
        nsinks = 0
        ndec = 0
        accept_bad = {}
        zip_bad = {}
        naccept = 0
        for p in paths:
            decoded = {}
            for ev in p.events:
                if ev["kind"] == "decoded":
                    decoded[ev["result"]] = ev
                elif ev["kind"] == "decode":
                    ndec += 1
                    n = DEC_LEN[ev["fn"]]
                    if not len_gate(ev["facts"], ev["arg"], n):
                        dec_bad.setdefault((ev["fn"], ev["caller"]), (ev, p))
                    if _transformed_input(ev["arg"]):
                        copy_bad.setdefault((ev["fn"], ev["caller"]), (ev, p))
                elif ev["kind"] == "zip":
                    # keys are validated inside the loop over zip(PKs, messages): a zip that may be shorter than the key
                    # list leaves the keys beyond it undecoded and unvalidated on an accepting exit
                    la, lb = ev["lens"][0], ev["lens"][1]
                    if not has_fact(ev["facts"], t_eq(la, lb), True):
                        zip_bad.setdefault(ev["where"], (ev, p))
                elif ev["kind"] == "pairing":
                    nsinks += 1
                    Q, P, f = ev["Q"], ev["P"], ev["facts"]
                    okQ = (isinstance(Q, Term) and Q.op == "hash_to_G2") or point_ok(f, Q, False)
                    base = P.args[0] if isinstance(P, Term) and P.op == "neg" else P
                    okP = base == G1c or point_ok(f, base, True)
                    if not okQ:
                        sink_bad.setdefault(("Q", ev["where"]), (ev, p, "first argument not subgroup-checked"))
                    if not okP:
                        sink_bad.setdefault(("P", ev["where"]), (ev, p, "second argument not validated (subgroup, non-identity)"))
            if p.outcome == "return" and p.value is not False and entry != "KeyValidate":
                naccept += 1
                facts = p.interp.facts
                # every decoded value that reaches this exit must be validated
                pts = [ev for ev in p.events if ev["kind"] == "decoded"]
                if not pts:
                    accept_bad.setdefault("no decode on accepting path", p)
                for ev in pts:
                    X = ev["result"]
                    need = ev["fn"] == "pubkey_to_G1"
                    if not point_ok(facts, X, need):
                        accept_bad.setdefault(f"{ev['fn']} result not validated on an accepting path", p)
                if not any(ev["kind"] == "pairing" for ev in p.events):
                    accept_bad.setdefault("accepting path without pairing", p)
        npair += nsinks
        if nsinks:
            if not sink_bad:
                chk.ob("C04.R2", construct, "pairing sinks", True, f"{nsinks} sink evaluations on {len(paths)} paths", m.where)
            for (which, where), (ev, p, why) in sink_bad.items():
                chk.ob("C04.R2", construct, f"pairing argument {which} at {where.split('(')[-1]}", False,
                       f"{why}: {show(ev[which])[:200]} at {where}; path {' '.join(p.branch_lines()[-8:])}", where)
        if entry != "KeyValidate":
            if naccept == 0:
                chk.ob("C04.R2", construct, "accepting exit exists", False, "no accepting path found", m.where)
            elif not accept_bad:
                chk.ob("C04.R2", construct, "accepting exits", True, f"{naccept} accepting paths carry all gates", m.where)
            for k, p in accept_bad.items():
                chk.ob("C04.R2", construct, k, False, f"path {' '.join(p.branch_lines()[-10:])}", m.where)
        for where, (ev, p) in zip_bad.items():
            chk.ob("C04.R2", construct, f"zip at {where.split('(')[-1]} may be shorter than the key list", False,
                   f"zip({', '.join(show(l) for l in ev['lens'])}) at {where} without a length-equality gate: keys beyond the shorter "
                   f"sequence are never decoded or validated, yet the call can accept; path {' '.join(p.branch_lines()[-6:])}", where)
        for (fn, caller), (ev, p) in copy_bad.items():
            chk.ob("C04.R3", construct, f"{fn} decodes a transformed copy of the caller's bytes", False,
                   f"{fn}({show(ev['arg'])[:100]}) at {ev['where']}: the value that is length-gated and decoded is a slice / re-assembly of "
                   "the argument, so byte strings other than the canonical encoding (longer, padded) are accepted", ev["where"])
        if not dec_bad:
            chk.ob("C04.R3", construct, "decoder calls length-gated", True, f"{ndec} decoder call evaluations", m.where)
        for (fn, caller), (ev, p) in dec_bad.items():
            chk.ob("C04.R3", construct, f"{fn} not dominated by len == {DEC_LEN[fn]}", False,
                   f"{fn}({show(ev['arg'])[:80]}) called from {caller} at {ev['where']} without a length gate on this path: "
                   f"{' '.join(p.branch_lines()[-6:]) or '(entry)'}", ev["where"])
        # ---------------- R4
        if entry == "KeyValidate":
            bad = []
            ntrue = 0
            for p in paths:
                if p.outcome != "return":
                    continue
                if p.value is True:
                    ntrue += 1
                    pts = [ev for ev in p.events if ev["kind"] == "decoded"]
                    if len(pts) != 1 or not point_ok(p.interp.facts, pts[0]["result"], True):
                        bad.append(p)
                elif p.value is not False:
                    bad.append(p)
            if ntrue == 0:
                chk.ob("C04.R4", construct, "True path exists", False, "KeyValidate never returns True", m.where)
            elif not bad:
                chk.ob("C04.R4", construct, "True only after decode ∧ ¬is_inf ∧ subgroup_check", True,
                       f"{ntrue} accepting paths of {len(paths)}", m.where)
            else:
                p = bad[0]
                chk.ob("C04.R4", construct, "True without full validation", False,
                       f"returns {show(p.value)} on path {' '.join(p.branch_lines())}", m.where)
    # ---------------- R3a exact predicates
    for suite in SUITES:
        for meth, n in (("_is_valid_pubkey", 48), ("_is_valid_signature", 96)):
            r = predicate_accept_set(M, suite, meth, "bytes")
            ok = r["accept"] == [(n, n)] and r["type_required"] and not r["problems"]
            chk.ob("C04.R3", r["qual"] + f"[{suite}]", f"accepted lengths == {{{n}}}", ok,
                   f"accepted lengths {show_set(r['accept'])}, bytes-type required: {r['type_required']}"
                   + ("; " + "; ".join(r["problems"]) if r["problems"] else ""), r["where"])
            if suite == "G2ProofOfPossession" and meth == "_is_valid_pubkey":
                chk.ob("C04.R3", r["qual"] + f"[{suite}]", "PoP key predicate also requires KeyValidate",
                       "KeyValidate" in r["extra"], f"extra conjuncts: {sorted(r['extra'])}", r["where"])
    if npair < 8:
        raise AnalysisError(f"only {npair} pairing sink evaluations found (expected ≥ 8)")
    chk.note_analysed(entry_points=11, paths=total_paths, pairing_sink_evaluations=npair)


def Model_G1(M):
    """the folded generator constant as the ciphersuite module sees it"""
    from ..interp import Interp
    it = Interp(M.world)
    return hp(it.eval_global(M.repo.module(CS), "G1"))


MANIFEST = {
    "level": "other",
    "technique": "static analysis: path-enumerating abstract interpretation of the verification entry points over "
                 "symbolic byte strings (exception-escape, must-pass-through guards / typestate at pairing sinks, "
                 "exact accepted sets of the length predicates); package call graph with recursion-depth bound "
                 "(halving measure, constant folding of scalars at call sites) against the import-time recursion limit",
    "text": "Decides for all inputs (not samples) that no raise escapes KeyValidate/Verify/AggregateVerify/"
            "FastAggregateVerify/PopVerify in any suite, that every pairing argument and every accepting exit is dominated by "
            "length gate, successful decode, subgroup check and (keys) non-identity check on the same value, and that the length "
            "predicates accept exactly 48/96-byte bytes objects. This is the shape-of-code part of C04; it is decided on every "
            "path of the current source. R8: RecursionError is a raise too — recursive functions below the entry points have a "
            "static depth bound and the recursion limit the package sets at import is at least CPython's default plus that "
            "depth (provisioning, not a claim about arbitrarily deep callers).",
    "note": "R5 re-states the decoder tables of C11; R7 re-states C17.R1 and the ladder schema of the optimized BLS multiply (C07.R3): the subgroup gate refuses every point outside the subgroup only if multiply is scalar multiplication on every curve point. Trusted: the checker's model of the Python fragment; decoders/curve functions pure (C20); subgroup_check/is_inf mean "
            "what C17/C13 establish; implicit exceptions of builtins only for the modelled list.",
}
