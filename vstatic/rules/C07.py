"""C07 — curve operations are the group law in all four curve modules."""
from __future__ import annotations

from ..term import AnalysisError
from ..interp import World, Interp
from ..poly import Poly, Rat, reduce_by
from ..ecalg import FieldSym
from ..curvelaw import (Rep, check_function, cases_add, cases_double, cases_neg, cases_eq, cases_on_curve,
                        cases_isinf, cases_normalize, chord, tangent)
from ..scalarmul import check_multiply_schema
from ..twistcheck import check_twist
from ..fieldmodel import FieldVal
from ..nt import is_prime, ExtField, PrimeField, Curve, inv_mod
from ..spec import params as SP

REF = {"bn128": "py_ecc.bn128.bn128_curve", "bls12_381": "py_ecc.bls12_381.bls12_381_curve"}
OPT = {"bn128": "py_ecc.optimized_bn128.optimized_curve", "bls12_381": "py_ecc.optimized_bls12_381.optimized_curve"}
ONE = [("finite",), ("inf",)]
TWO = [("finite", "finite"), ("finite", "inf"), ("inf", "finite"), ("inf", "inf")]


def record(chk, rule, f, obs, npaths):
    for o in obs:
        chk.ob(rule, f.qualname, f"{o.combo} | {o.case}", o.ok, o.detail, f.where)
    return npaths


def make_adder_check(w, rep):
    """group-law check (all strata of cases_add) for a function the multiply ladder uses as point addition"""
    def adder_check(fn, pts, extra, kwargs):
        nargs = max(list(pts) + list(extra)) + 1

        def call(it, a):
            argl = [None] * nargs
            argl[pts[0]], argl[pts[1]] = a[0], a[1]
            for i, v in extra.items():
                argl[i] = v
            return it.call_func(fn, argl, dict(kwargs))
        try:
            obs, _n = check_function(w, call, rep, rep, TWO, cases_add, native_fields=False)
        except AnalysisError as e:
            raise AnalysisError(f"{fn.qualname} (used as point addition in a scalar-multiplication ladder): {e}")
        bad = [o for o in obs if not o.ok]
        return (not bad, "; ".join(f"{o.combo} | {o.case}: {o.detail}" for o in bad[:2])[:500] or f"{len(obs)} cases")

    def generic(fn):
        """fn agrees with the chord rule on two generic finite points (x1 ≠ x2)"""
        obs, _n = check_function(w, lambda it, a: it.call_func(fn, [a[0], a[1]], {}), rep, rep, [("finite", "finite")], cases_add,
                                 native_fields=False)
        g = [o for o in obs if "generic" in o.case]
        return bool(g) and all(o.ok for o in g)
    adder_check.generic = generic
    return adder_check


def typed_reps(repo, mod, kind):
    """one representation per coordinate field class of the module (FQ, FQ2, FQ12): used when a function dispatches on the type
    of its coordinates, which an untyped symbolic coordinate cannot answer"""
    from ..ecalg import FieldSymClass
    out = []
    m = repo.module(mod)
    for nm in ("FQ", "FQ2", "FQ12"):
        r = repo.resolve_binding(m, nm)
        if r and r[0] == "class":
            out.append((nm, Rep(kind, FieldSymClass(tag=r[1]))))
    return out


def law_checks(chk, rule, repo, w, mod, kind):
    from ..curvelaw import ConcreteCoord
    rep = Rep(kind)
    aff = Rep("affine")
    kw = dict(native_fields=False)
    fn = lambda n: repo.func(f"{mod}.{n}")
    n = 0
    for name, combos, table, rk in (("double", ONE, cases_double, "point"), ("add", TWO, cases_add, "point"),
                                    ("neg", ONE, cases_neg, "point"), ("eq", TWO, cases_eq, "bool"),
                                    ("is_inf", ONE, cases_isinf, "bool")):
        f = fn(name)
        try:
            n += record(chk, rule, f, *check_function(w, lambda it, a, f=f: it.call_func(f, list(a), {}), rep, rep, combos, table, rk, **kw))
        except ConcreteCoord:
            # the function returns field-class-specific constants: decide it once per coordinate field of the module
            for nm, trep in typed_reps(repo, mod, kind):
                obs, np_ = check_function(w, lambda it, a, f=f: it.call_func(f, list(a), {}), trep, trep, combos, table, rk, **kw)
                for o in obs:
                    chk.ob(rule, f.qualname, f"[{nm} coordinates] {o.combo} | {o.case}", o.ok, o.detail, f.where)
                n += np_
    f = fn("is_on_curve")
    b = FieldSym.var("b")
    n += record(chk, rule, f, *check_function(w, lambda it, a, f=f: it.call_func(f, [a[0], b], {}), rep, rep, ONE,
                                              lambda A: cases_on_curve(A, b.r), "bool", **kw))
    if kind == "proj":
        f = fn("normalize")
        n += record(chk, rule, f, *check_function(w, lambda it, a, f=f: it.call_func(f, list(a), {}), rep, aff, [("finite",)], cases_normalize, **kw))
    return n


def table_self_checks(chk):
    """closure and commutativity of the oracle table itself (so that 'code == table' gives them for the code)"""
    x1, y1, x2, y2, b = (Rat(Poly.var(v)) for v in ("x1", "y1", "x2", "y2", "b"))
    rules = [("y1", 2, Poly.var("x1") ** 3 + Poly.var("b")), ("y2", 2, Poly.var("x2") ** 3 + Poly.var("b"))]
    for name, res in (("chord", chord((x1, y1), (x2, y2))), ("tangent", tangent((x1, y1)))):
        _, X, Y = res
        f = Y * Y - X * X * X - b
        chk.ob("C07.R1", "affine table", f"closure of the {name} formula on y² = x³ + b", reduce_by(f.n, rules).is_zero(),
               "numerator reduces to 0 modulo the two curve equations", "vstatic/curvelaw.py")
    _, Xa, Ya = chord((x1, y1), (x2, y2))
    _, Xb, Yb = chord((x2, y2), (x1, y1))
    chk.ob("C07.R1", "affine table", "commutativity of the chord formula", (Xa - Xb).n.is_zero() and (Ya - Yb).n.is_zero(), "", "vstatic/curvelaw.py")


def fv_affine(pt, projective):
    """folded point constant -> affine tuple of raw values, None for infinity"""
    if pt is None:
        return None
    if projective:
        x, y, z = pt
        if (z.v == 0) or (isinstance(z.v, tuple) and not any(z.v)):
            return None
        return ((x / z).v, (y / z).v)
    return (pt[0].v, pt[1].v)


def run(chk, repo, tier):
    chk.explanation = ("add/double/neg/eq/is_on_curve/is_inf of the two reference and two optimized curve modules are compared "
                       "path by path with one affine chord-and-tangent table as polynomial identities (b symbolic: base, twist and "
                       "degree-12 curve at once); multiply is checked against n·P by induction schema with termination; twist is "
                       "checked in the symbolic tower to be a ring embedding times units carrying the curve equation over; all "
                       "published constants are folded and validated against values re-derived from the curve parameters.")
    chk.rule("C07.R1", "reference modules: every (path, affine case) returns the textbook result; every case is handled; table closed & commutative", 2 * 20)
    chk.rule("C07.R2", "optimized modules equal the same affine table (so reference and optimized agree)", 2 * 20)
    chk.rule("C07.R3", "multiply(P, n) = n·P for every n ≥ 0 on every path (induction schema), recursion terminates", 4 * 4)
    chk.rule("C07.R4", "twist is an injective ring-embedding-times-units map carrying E'(F_p²) into E(F_p¹²)", 4 * 4)
    chk.rule("C07.R5", "moduli, orders, coefficients, tower moduli, generators are the standard alt_bn128 / BLS12-381 ones and "
                       "agree between the reference and the optimized module", 30)
    chk.rule("C07.R7", "field division used for the slopes: prime_field_inv (Euclid invariant) and the quadratic-extension inv() "
                       "(a·inv(a) = 1 on every path) — C08's obligations re-stated", 4 + 5)
    chk.rule("C07.R6", "associativity of the affine chord-and-tangent table the code is compared with, as formal identities modulo the "
                       "curve equations: codimension-one strata (quick) and the generic stratum / sum-equals-third-point (thorough)", 6)
    chk.not_decided += ["associativity on the remaining lower-dimensional strata (two coincidences at once, points of order 2 or 3, "
                        "the identity as an intermediate sum other than by inverse cancellation); in the quick tier also the generic stratum"]
    chk.assumptions += ["field operators are ring operations on canonical representatives (C08)", "characteristic > 3"]
    chk.depends_on += ["C08", "C13"]
    w = World(repo)
    table_self_checks(chk)
    n = 0
    for c, mod in REF.items():
        n += law_checks(chk, "C07.R1", repo, w, mod, "affine")
    for c, mod in OPT.items():
        n += law_checks(chk, "C07.R2", repo, w, mod, "proj")
    for mod in list(REF.values()) + list(OPT.values()):
        f = repo.func(f"{mod}.multiply")
        res, np_ = check_multiply_schema(w, f, None, double_q=f"{mod}.double", add_q=f"{mod}.add",
                                         adder_check=make_adder_check(w, Rep("affine" if mod in REF.values() else "proj")))
        for key, ok, det in res:
            chk.ob("C07.R3", f.qualname, key, ok, det, f.where)
    for mod in REF.values():
        res, f = check_twist(w, repo, mod, False)
        for key, ok, det in res:
            chk.ob("C07.R4", f.qualname, key, ok, det, f.where)
    for mod in OPT.values():
        res, f = check_twist(w, repo, mod, True)
        for key, ok, det in res:
            chk.ob("C07.R4", f.qualname, key, ok, det, f.where)
    constants(chk, repo, w, tier)
    # the slope of every chord/tangent is a field division: the inverse routines the curve code relies on (C08) re-stated
    from ..fieldcheck import FieldSubject, check_inv_paths
    from ..euclid import check_euclid
    for q in ("py_ecc.fields.bn128_FQ2", "py_ecc.fields.bls12_381_FQ2", "py_ecc.fields.optimized_bn128_FQ2",
              "py_ecc.fields.optimized_bls12_381_FQ2"):
        for key, ok, det, where in check_inv_paths(FieldSubject(w, repo.cls(q))):
            chk.ob("C07.R7", q, key, ok, det, where)
    finv = repo.func("py_ecc.utils.prime_field_inv")
    for key, ok, det in check_euclid(w, finv):
        chk.ob("C07.R7", finv.qualname, key, ok, det, finv.where)
    from ..assoc import obligations as assoc_obligations
    for name, ok, det in assoc_obligations(tier):
        chk.ob("C07.R6", "vstatic.curvelaw (affine table)", name, ok, det, "vstatic/curvelaw.py")
    chk.note_analysed(paths=n)


def constants(chk, repo, w, tier):
    it = Interp(w)
    R = "C07.R5"
    ORACLE = {
        "bn128": {"p": SP.BN["p"], "r": SP.BN["r"], "b": 3, "b2": ("div", (3, 0), (9, 1)), "b12": 3,
                  "mc2": (1, 0), "mc12": (82, 0, 0, 0, 0, 0, -18, 0, 0, 0, 0, 0), "G1": SP.BN_G1, "G2": SP.BN_G2},
        "bls12_381": {"p": SP.BLS["p"], "r": SP.BLS["r"], "b": 4, "b2": (4, 4), "b12": 4,
                      "mc2": (1, 0), "mc12": (2, 0, 0, 0, 0, 0, -2, 0, 0, 0, 0, 0), "G1": SP.BLS_G1, "G2": SP.BLS_G2},
    }
    for curve, O in ORACLE.items():
        p, r = O["p"], O["r"]
        F2 = ExtField(p, O["mc2"])
        F12 = ExtField(p, O["mc12"])
        chk.ob(R, f"oracle[{curve}]", "p(x), r(x) prime; r | p^12 − 1; tower moduli irreducible",
               is_prime(p) and is_prime(r) and (pow(p, 12, r) == 1) and F2.is_irreducible() and F12.is_irreducible(),
               "checker's own Miller–Rabin / Rabin irreducibility test", "vstatic/spec/params.py")
        b2 = O["b2"]
        if b2[0] == "div":
            b2 = F2.div(F2.el(b2[1]), F2.el(b2[2]))
        else:
            b2 = F2.el(b2)
        E1 = Curve(PrimeField(p), 0, O["b"])
        E2 = Curve(F2, F2.zero(), b2)
        g1, g2 = O["G1"], (F2.el(O["G2"][0]), F2.el(O["G2"][1]))
        chk.ob(R, f"oracle[{curve}]", "standard generators lie on their curves and have order r",
               E1.on_curve(g1) and E2.on_curve(g2) and E1.mul(g1, r) is None and E2.mul(g2, r) is None,
               "checker's own affine arithmetic on the literal tables", "vstatic/spec/params.py")
        vals = {}
        for kind, mod in (("ref", REF[curve]), ("opt", OPT[curve])):
            m = repo.module(mod)
            proj = kind == "opt"
            g = lambda nme: it.eval_global(m, nme)
            fm, co = g("field_modulus"), g("curve_order")
            chk.ob(R, f"{mod}.field_modulus", "equals p derived from the curve parameter", fm == p, f"folded {fm}"[:80], m.relpath)
            chk.ob(R, f"{mod}.curve_order", "equals r derived from the curve parameter", co == r, f"folded {co}"[:80], m.relpath)
            b, bb2, bb12 = g("b"), g("b2"), g("b12")
            okb = (isinstance(b, FieldVal) and b.v == O["b"] and b.p == p and isinstance(bb2, FieldVal) and bb2.v == b2
                   and bb2.p == p and tuple(bb2.mc) == tuple(x % p for x in O["mc2"])
                   and isinstance(bb12, FieldVal) and bb12.v == (O["b12"],) + (0,) * 11
                   and tuple(bb12.mc) == tuple(x % p for x in O["mc12"]))
            chk.ob(R, f"{mod}.b/b2/b12", "curve coefficients and tower moduli are the standard ones", okb,
                   f"b={b!r} b2={bb2!r}"[:160], m.relpath)
            G1, G2, Z1, Z2 = g("G1"), g("G2"), g("Z1"), g("Z2")
            a1, a2 = fv_affine(G1, proj), fv_affine(G2, proj)
            chk.ob(R, f"{mod}.G1", "standard generator", a1 == tuple(x % p for x in O["G1"]), f"{a1}"[:100], m.relpath)
            chk.ob(R, f"{mod}.G2", "standard generator", a2 == (F2.el(O["G2"][0]), F2.el(O["G2"][1])), f"{a2}"[:100], m.relpath)
            chk.ob(R, f"{mod}.Z1/Z2", "infinity constants are infinity representatives",
                   fv_affine(Z1, proj) is None and fv_affine(Z2, proj) is None, f"Z1={Z1!r}"[:80], m.relpath)
            G12 = g("G12")
            vals[kind] = (fm, co, b.v, bb2.v, bb12.v, a1, a2, fv_affine(G12, proj))
        chk.ob(R, f"{curve}: reference vs optimized", "moduli, orders, coefficients, generators and twisted generator identical",
               vals["ref"] == vals["opt"], "" if vals["ref"] == vals["opt"] else "constants differ between the two modules", "")
        # fields/__init__ classes for this curve
        for cn in ("FQ", "FQ2", "FQ12", "FQP"):
            for pre in ("", "optimized_"):
                c = repo.cls(f"py_ecc.fields.{pre}{curve}_{cn}")
                fmv = it.class_attr(c, "field_modulus")
                ok = fmv == p
                if cn == "FQ2":
                    ok = ok and tuple(it.class_attr(c, "FQ2_MODULUS_COEFFS")) == O["mc2"]
                if cn == "FQ12":
                    ok = ok and tuple(it.class_attr(c, "FQ12_MODULUS_COEFFS")) == O["mc12"]
                chk.ob(R, c.qualname, "field class carries this curve's modulus and tower coefficients", ok, "", c.module.relpath)


MANIFEST = {
    "level": "other",
    "technique": "static analysis: polynomial-identity checking of every control path of the curve operations against one "
                 "affine table, inductive schema check of multiply, symbolic tower arithmetic for twist, constant folding with "
                 "number-theoretic validation against parameters re-derived from the curve seeds",
    "text": "Decides for all points/scalars and all three curves of each family at once (b symbolic): the reference and optimized "
            "add/double/neg/eq/is_on_curve equal the textbook law on every path with every case handled (closure and "
            "commutativity follow from the table), multiply = n·P with termination, twist is an injective homomorphic embedding "
            "onto curve points, and every published constant is the standard one and shared by both modules. Associativity of the "
            "table (hence of the code, path by path) is decided as formal identities on the generic stratum and the "
            "codimension-one strata (thorough tier; quick: codimension-one only); deeper degenerate strata are not decided.",
    "note": "A function the multiply ladder applies to two points (other than add) is held to the whole group law on every stratum; ladder forms: recursive, range-indexed, right-to-left while, bin()-digits, peeled digit list. Functions that return constants of a concrete field class are decided once per coordinate class (FQ, FQ2, FQ12). Layered on C08 (field operators are ring operations). Oracle: affine table, BN/BLS parameter polynomials, generator "
            "literals. Trusted: evaluator model, checker's polynomial / tower / modular arithmetic.",
}
