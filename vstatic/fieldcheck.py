"""C08 / C14: the field class bodies themselves are walked by the evaluator
(native field model OFF) on symbolic operands; every operator's result is
compared with the quotient-ring operation on canonical representatives."""
from __future__ import annotations

from .term import AnalysisError, AbstractValue, Term, show, subterms
from .poly import Poly, Rat
from .interp import Interp, World, Instance, Raised, External
from .ecalg import FieldSym, FieldSymClass, PolyCond, AlgState, alg_paths, AlgInterp
from .tower import TowerSym

UTILS_INV = "py_ecc.utils.prime_field_inv"


INV_REG = {}


def inv0_atom(poly: Poly, p):
    name = f"inv0({poly!r})"
    INV_REG[name] = poly
    return Poly.var(name, p)


def inv_summary(p):
    def s(it, f, args, kwargs, node):
        a, n = args
        if n != p:
            raise AnalysisError(f"{it.where(node)}: prime_field_inv called with modulus {n!r}, expected the field modulus")
        if isinstance(a, FieldSym):
            return FieldSym(Rat(inv0_atom(Poly(a.r.n.t, p), p)), a.cls, True)
        if isinstance(a, int):
            from .nt import inv_mod
            return inv_mod(a, p)
        raise AnalysisError(f"{it.where(node)}: prime_field_inv of {a!r}")
    return s


RESIDUE_ONLY = ("a zero residue cannot enter the loop", "low enters the loop as a residue")


def euclid_contract(S):
    """wildcard summary: an integer inverse routine that is not prime_field_inv itself (the Euclid loop moved into a helper that the
    field operators call directly).  The routine is classified once with the C08.R4 schema: every obligation holds -> it is inv0
    on every integer; only the obligations about unreduced operands fail (zero test on the raw argument, loop entered without
    `% n`) -> it is inv0 on residues 0 <= a < n only, and a call site that hands it anything else gets a value that is *not*
    inv0 (a distinct atom: the operator's result then differs from the specification and the obligation fails, naming it)"""
    import ast as _ast
    from .euclid import check_euclid
    std = inv_summary(S.p)
    cache = S.world.__dict__.setdefault("_euclid_contracts", {})

    def classify(f):
        if f.qualname not in cache:
            a = f.node.args
            shaped = (len(a.posonlyargs + a.args) == 2 and not a.vararg and not a.kwonlyargs
                      and any(isinstance(n, _ast.While) for n in f.node.body))
            if not shaped:
                cache[f.qualname] = None
            else:
                try:
                    res = check_euclid(S.world, f)
                    bad = [k for k, ok, _ in res if not ok]
                    cache[f.qualname] = ("total", "") if not bad else \
                        ("residues", bad[0]) if all(k.startswith(RESIDUE_ONLY) for k in bad) else ("wrong", bad[0])
                except AnalysisError:
                    cache[f.qualname] = None
        return cache[f.qualname]

    def s(it, f, args, kwargs, node):
        if kwargs or len(args) != 2 or args[1] != S.p or isinstance(args[1], bool) or f.qualname == UTILS_INV:
            return NotImplemented
        a = args[0]
        if not isinstance(a, (FieldSym, int)):
            return NotImplemented
        c = classify(f)
        if c is None:
            return NotImplemented
        kind, why = c
        if kind == "total":
            return std(it, f, args, kwargs, node)
        if kind == "residues":
            if isinstance(a, int):
                if 0 <= a < S.p:
                    return std(it, f, args, kwargs, node)
            else:
                red = a.reduced
                if not red:
                    prev = getattr(S, "cur_it", None)
                    S.cur_it = prev or it
                    try:
                        lo, hi = S.range_on_path(a)
                        red = lo >= 0 and hi <= S.p - 1
                    except AnalysisError:
                        red = False
                    finally:
                        S.cur_it = prev
                if red:
                    return std(it, f, args, kwargs, node)
        tag = f"{f.qualname.rsplit('.', 1)[-1]}@{it.where(node)}: not inv0 here — {why.split(':')[0][:90]}"
        if isinstance(a, int):
            return FieldSym(Rat(Poly.var(f"WRONG[{tag}]({a})", S.p)), S.fcls, True)
        return FieldSym(Rat(Poly.var(f"WRONG[{tag}]({Poly(a.r.n.t, S.p)!r})", S.p)), a.cls, True)
    return s


class FieldSubject:
    """one concrete field class (e.g. py_ecc.fields.optimized_bn128_FQ2) under analysis"""

    def __init__(self, world: World, cls, synthetic=None):
        self.world, self.repo, self.cls = world, world.repo, cls
        it = Interp(world, native_fields=False)
        self.p = it.class_attr(cls, "field_modulus")
        from .fieldmodel import field_kind
        k = field_kind(cls, self.repo)
        if k is None:
            raise AnalysisError(f"{cls.qualname} is not a field class")
        self.kind, self.opt = k
        self.fcls = FieldSymClass(modulus=self.p)
        if self.kind == "FQP":
            init = it.find_method(cls, "__init__")
            mcname = {"FQ2": "FQ2_MODULUS_COEFFS", "FQ12": "FQ12_MODULUS_COEFFS"}.get(init.cls.name)
            if mcname is None:
                raise AnalysisError(f"{cls.qualname}: constructor of {init.cls.name} not recognised")
            self.mc = tuple(it.class_attr(cls, mcname))
            self.d = len(self.mc)
        self.summ = {UTILS_INV: inv_summary(self.p), "*": euclid_contract(self)}
        self.repo.func(UTILS_INV)
        self.undecided = []

    def settle(self, out):
        """end of a batch of obligations: an undecided one is an analysis error unless a violation was found anyway"""
        if self.undecided and all(o[1] for o in out):
            msg = self.undecided[0]
            self.undecided = []
            raise AnalysisError(msg)
        self.undecided = []
        return out

    # ---- symbolic operands ------------------------------------------------
    def var(self, name, reduced=False):
        return FieldSym(Rat(Poly.var(name, self.p)), self.fcls, reduced)

    def interp(self, **kw):
        return AlgInterp(self.world, native_fields=False, summaries=self.summ, alg=AlgState(), **kw)

    def element(self, it, tag):
        """a generic element built through the constructor from arbitrary ints"""
        if self.kind == "FQ":
            inst = it.instantiate(self.cls, [self.var(tag)], {})
            return inst, Poly.var(tag, self.p)
        coeffs = [self.var(f"{tag}{i}") for i in range(self.d)]
        inst = it.instantiate(self.cls, [coeffs], {})
        return inst, TowerSym([Poly.var(f"{tag}{i}", self.p) for i in range(self.d)], self.mc, self.p)

    # ---- reading results --------------------------------------------------
    def read(self, v):
        """-> (value as Poly / TowerSym, all stored values reduced?, class ok?) or raises"""
        if not isinstance(v, Instance):
            raise AnalysisError(f"result is not a field object: {show(v)[:80]}")
        okcls = v.cls is self.cls
        if self.kind == "FQ":
            n = v.attrs.get("n")
            val, red = self._res(n)
            return val, red, okcls
        cs = v.attrs.get("coeffs")
        if not isinstance(cs, tuple) or len(cs) != self.d:
            raise AnalysisError(f"result has coefficients {show(cs)[:80]}")
        vals, red = [], True
        for c in cs:
            if isinstance(c, Instance):
                x, r = self._res(c.attrs.get("n"))
            else:
                x, r = self._res(c)
            vals.append(x)
            red = red and r
        return TowerSym(vals, self.mc, self.p), red, okcls

    def _res(self, n):
        if isinstance(n, bool):
            n = int(n)
        if isinstance(n, int):
            return Poly.const(n, self.p), 0 <= n < self.p
        if isinstance(n, FieldSym):
            if not n.r.d.is_const() or n.r.d.const_value() != 1:
                raise AnalysisError("rational stored value")
            red = n.reduced
            if not red:
                # an input stored as it came is canonical when the path established 0 <= it < p
                lo, hi = self.range_on_path(n)
                red = lo >= 0 and hi <= self.p - 1
            return Poly(n.r.n.t, self.p), red
        raise AnalysisError(f"stored value {show(n)[:60]}")

    def range_on_path(self, n):
        """integer bounds that the facts of the current path put on the symbolic input n (a bare variable): comparisons of n
        itself with constants, and of min(...)/max(...) of a collection containing n"""
        from .ranges import interval_of_facts, INF
        it = getattr(self, "cur_it", None)
        lo, hi = -INF, INF
        if it is None:
            return lo, hi
        me = repr(n)
        for a, t, _w in it.fact_log:
            if not isinstance(a, Term):
                continue
            if a.op == "field_order" and a.args[1] == me:
                op, _s, other = a.args
                try:
                    c = int(other)
                except (TypeError, ValueError):
                    continue
                if not t:
                    op = {"<": ">=", "<=": ">", ">": "<=", ">=": "<"}[op]
                if op == ">=":
                    lo = max(lo, c)
                elif op == ">":
                    lo = max(lo, c + 1)
                elif op == "<":
                    hi = min(hi, c - 1)
                elif op == "<=":
                    hi = min(hi, c)
                continue
            for sub in subterms(a):
                if isinstance(sub, Term) and sub.op in ("min", "max") and me in sub.args:
                    l2, h2, _holes, _ = interval_of_facts([(a, t)], sub)
                    if sub.op == "min":
                        lo = max(lo, l2)       # min >= l2  ⇒  every member >= l2
                    else:
                        hi = min(hi, h2)       # max <= h2  ⇒  every member <= h2
        return lo, hi

    def same(self, a, b):
        if isinstance(a, TowerSym):
            return a.equals(b)
        return (a - b).is_zero()

    def same_on(self, it, a, b):
        """equal as polynomials, or equal under the algebraic facts of the current path"""
        if self.same(a, b):
            return True
        alg = getattr(it, "alg", None)
        if alg is None:
            return False
        diffs = [x - y for x, y in zip(a.c, b.c)] if isinstance(a, TowerSym) else [a - b]
        return all(alg.is_zero(Rat(Poly(d.t, None))) is True for d in diffs)

    def over_paths(self, body, label, where, out, refusal=None):
        """evaluate body(it) -> (ok, detail) on every path of the walked code (the operands are built inside body, so a branch
        in a constructor is a path split too); a raising path fails unless `refusal` accepts the exception class"""
        def body_on(it):
            self.cur_it = it
            try:
                return body(it)
            finally:
                self.cur_it = None
        paths = alg_paths(self.world, body_on, AlgState(), native_fields=False, summaries=self.summ, partial=True)
        bad, notes = [], []
        for p in paths:
            pd = " ".join(p.branch_lines()[-3:])
            if p.outcome == "raise":
                cn = p.value.clsname()
                if refusal is not None and refusal(cn):
                    notes.append(f"raises {cn}")
                    continue
                bad.append(f"raises {cn} at {p.value.where}" + (f" on path {pd}" if pd else ""))
            else:
                ok, det = p.value
                if not ok:
                    bad.append(det + (f" on path {pd}" if pd else ""))
                elif det:
                    notes.append(det)
        if paths.truncated and not bad:
            # undecided: remembered, and raised by the caller unless another obligation of the same class fails outright
            self.undecided.append(f"{where}: {label}: more than {len(paths) - 1} algebraic paths and no violation among those walked")
            return
        out.append((label, bool(paths) and not bad, "; ".join(bad[:2]) or "; ".join(sorted(set(notes))[:2]) or
                    (f"{len(paths)} paths" if len(paths) > 1 else ""), where))


def check_inv_paths(S: "FieldSubject"):
    """quadratic extension classes: walk inv() (polynomial extended Euclid with its rounded division) on a symbolic element,
    path by path — the degree tests on the coefficients are the path conditions — and require on every path
    a = 0 ⇒ inv = 0 (inv0 convention), else a·inv(a) = 1 in F_p[X]/(m).  A path whose conditions force the norm form of a
    non-zero element to vanish is infeasible because m is irreducible (checked).  -> list of (key, ok, detail, where)"""
    from .ecalg import alg_paths, PolyCond
    from .nt import ExtField, inv_mod
    out = []
    it0 = Interp(S.world, native_fields=False)
    m = it0.find_method(S.cls, "inv")
    if m is None or S.kind != "FQP" or S.d != 2:
        return out
    p = S.p

    def inv_rat(it, f, args, kw, node):
        a, n = args
        if n != p:
            raise AnalysisError(f"{it.where(node)}: prime_field_inv called with modulus {n!r}, expected the field modulus")
        if isinstance(a, bool):
            a = int(a)
        if isinstance(a, int):
            return inv_mod(a, p)
        if not isinstance(a, FieldSym):
            raise AnalysisError(f"{it.where(node)}: prime_field_inv of {a!r}")
        z = it.alg.is_zero(a.r)
        if z is None:
            z = it.truth(PolyCond(a.r, True), node)
        if z:
            return 0
        return FieldSym(Rat(Poly.const(1)) / a.r, a.cls, True)

    def run(it):
        a, _av = S.element(it, "a")
        return a, it.call_func(m, [a], {})

    def bounded(it, st, fr):
        # the Euclid loop of a degree-2 element needs at most a handful of rounds; more means it does not terminate
        from .interp import _Break, _Continue
        n = 0
        while True:
            if not it.truth(it.eval(st.test, fr), st.test):
                return None
            n += 1
            if n > 5:
                raise AnalysisError("the Euclid loop does not terminate within 5 rounds on some path (degree 2 needs at most 4)")
            try:
                it.exec_block(st.body, fr)
            except _Break:
                return None
            except _Continue:
                continue
    try:
        paths = alg_paths(S.world, run, AlgState(modulus=p), native_fields=False, summaries={UTILS_INV: inv_rat},
                          while_hooks={m.qualname: bounded}, fuel=400_000)
    except AnalysisError as ex:
        return [("inv(): a·a.inv() = 1 on every path (degree 2)", False, f"not analysable: {ex}", m.where)]
    c0, c1 = S.mc
    a0, a1 = Poly.var("a0"), Poly.var("a1")
    norm = a0 * a0 - Poly.const(c1) * a0 * a1 + Poly.const(c0) * a1 * a1
    irreducible = ExtField(p, S.mc).is_irreducible()
    bad = []
    nfeasible = 0
    for pth in paths:
        pl = " ".join(pth.branch_lines()) or "(straight)"
        if pth.outcome != "return":
            bad.append(f"path {pl}: raises {pth.value.clsname()} at {pth.value.where}")
            continue
        a, r = pth.value
        if not isinstance(r, Instance) or r.cls is not S.cls:
            bad.append(f"path {pl}: returns {show(r)[:60]}")
            continue

        def coefs(inst):
            cs = []
            for c in inst.attrs.get("coeffs", ()):
                if isinstance(c, Instance):
                    c = c.attrs.get("n")
                cs.append(pth.alg.norm(c.r if isinstance(c, FieldSym) else Rat(Poly.const(int(c)))))
            return cs
        A, R = coefs(a), coefs(r)
        if len(A) != 2 or len(R) != 2:
            bad.append(f"path {pl}: result has {len(R)} coefficients")
            continue
        a_zero = all(pth.alg.is_zero(x) is True for x in A)
        if a_zero:
            nfeasible += 1
            if not all(pth.alg.is_zero(x) is True for x in R):
                bad.append(f"path {pl}: inverse of the zero element is not zero (inv0 convention)")
            continue
        # infeasible: the path assumes the norm form of a non-zero element to vanish
        if irreducible and any(_same_up_to_unit(z, norm, p) for z in pth.alg.zeros):
            continue
        nfeasible += 1
        prod = [Rat(Poly.const(0)) for _ in range(3)]
        for i, x in enumerate(A):
            for j, y in enumerate(R):
                prod[i + j] = prod[i + j] + x * y
        top = prod[2]
        prod[0] = prod[0] - top * Rat(Poly.const(c0))
        prod[1] = prod[1] - top * Rat(Poly.const(c1))
        ok = pth.alg.is_zero(prod[0] - Rat(Poly.const(1))) is True and pth.alg.is_zero(prod[1]) is True
        if not ok:
            bad.append(f"path {pl}: a·inv(a) ≠ 1 (kept path conditions: {[repr(z)[:60] for z in pth.alg.zeros]})")
    out.append(("inv(): polynomial Euclid, a·a.inv() = 1 on every feasible path and inv(0) = 0 (degree 2)", not bad and nfeasible >= 3 and irreducible,
                "; ".join(bad[:2]) or f"{len(paths)} paths, {nfeasible} feasible", m.where))
    return out


def _same_up_to_unit(z: Poly, n: Poly, p):
    """z = k·n modulo p for a non-zero constant k"""
    zt, nt = Poly(z.t, p), Poly(n.t, p)
    if set(zt.t) != set(nt.t) or not nt.t:
        return False
    m0 = next(iter(nt.t))
    from .nt import inv_mod
    k = zt.t[m0] * inv_mod(nt.t[m0], p) % p
    return k != 0 and all((zt.t[mm] - k * nt.t[mm]) % p == 0 for mm in nt.t)


def tower_scalar(t: TowerSym, k: Poly):
    return TowerSym([c * k for c in t.c], t.mc, t.p)


def tower_add(a, b, sign=1):
    return TowerSym([x + y * sign for x, y in zip(a.c, b.c)], a.mc, a.p)


def tower_pow(t: TowerSym, n):
    r = TowerSym([1] + [0] * (len(t.c) - 1), t.mc, t.p)
    for _ in range(n):
        r = r.mul(t)
    return r


def fq_cases(S: FieldSubject):
    """(method, operand kind, spec(a, b, k)) for the prime field"""
    p = S.p
    inv = lambda x: inv0_atom(x, p)
    C = []
    for kind in ("elem", "int"):
        C += [("__add__", kind, lambda a, b: a + b), ("__radd__", kind, lambda a, b: b + a),
              ("__sub__", kind, lambda a, b: a - b), ("__rsub__", kind, lambda a, b: b - a),
              ("__mul__", kind, lambda a, b: a * b), ("__rmul__", kind, lambda a, b: b * a),
              ("__div__", kind, lambda a, b: a * inv(b)), ("__truediv__", kind, lambda a, b: a * inv(b)),
              ("__rdiv__", kind, lambda a, b: inv(a) * b), ("__rtruediv__", kind, lambda a, b: inv(a) * b)]
    C += [("__neg__", None, lambda a, b: -a)]
    return C


def run_fq(S: FieldSubject):
    """returns list of (key, ok, detail, where)"""
    out = []
    it0 = Interp(S.world, native_fields=False)
    for meth, kind, spec in fq_cases(S):
        m = it0.find_method(S.cls, meth)
        if m is None:
            out.append((f"{meth}", False, "method missing", S.cls.module.relpath))
            continue
        def body(it, m=m, kind=kind, spec=spec):
            a, av = S.element(it, "a")
            if kind == "elem":
                b, bv = S.element(it, "b")
            elif kind == "int":
                b, bv = S.var("k"), Poly.var("k", S.p)
            else:
                b, bv = None, None
            r = it.call_func(m, [a] + ([b] if kind else []), {})
            val, red, okcls = S.read(r)
            want = spec(av, bv)
            ok = S.same_on(it, val, want) and red and okcls
            return ok, "" if ok else f"result ≡ {val!r}, specification {want!r}; stored reduced: {red}; class preserved: {okcls}"
        S.over_paths(body, f"{meth}({kind or 'unary'})", m.where, out)
    # constructors / constants
    for meth, wantc in (("one", 1), ("zero", 0)):
        m = it0.find_method(S.cls, meth)

        def body(it, m=m, wantc=wantc):
            val, red, okcls = S.read(it.call_func(m, [S.cls], {}))
            return S.same_on(it, val, Poly.const(wantc, S.p)) and red and okcls, f"{val!r}"
        S.over_paths(body, meth, m.where, out)

    def body(it):
        a, av = S.element(it, "a")
        return S.read(a)[1] and S.same_on(it, S.read(a)[0], av), ""
    S.over_paths(body, "constructor(int) reduces", S.cls.module.relpath, out)

    def body(it):
        a, av = S.element(it, "a")
        cp = it.instantiate(S.cls, [a], {})
        return S.read(cp)[1] and S.same_on(it, S.read(cp)[0], av), ""
    S.over_paths(body, "constructor(FQ) copies a canonical value", S.cls.module.relpath, out)
    m = it0.find_method(S.cls, "__int__")

    def body(it, m=m):
        a, av = S.element(it, "a")
        r = it.call_func(m, [a], {})
        return isinstance(r, FieldSym) and r.reduced and S.same_on(it, S._res(r)[0], av), ""
    S.over_paths(body, "__int__", m.where, out)
    # equality on elements: equivalent to residue equality (both stored values reduced)
    m = it0.find_method(S.cls, "__eq__")

    def run_eq(it):
        a, av = S.element(it, "a")
        b, bv = S.element(it, "b")
        r = it.call_func(m, [a, b], {})
        return r if isinstance(r, bool) else it.truth(r)
    paths = alg_paths(S.world, run_eq, AlgState(), native_fields=False, summaries=S.summ)
    okeq = len(paths) == 2 and {p.value for p in paths} == {True, False}
    for p in paths:
        z = p.alg.is_zero(Rat(Poly.var("a", S.p) - Poly.var("b", S.p)))
        if p.value is True and z is not True:
            okeq = False
        if p.value is False and z is True:
            okeq = False
        if any(ev["kind"] == "unreduced_compare" for ev in p.events):
            okeq = False
    out.append(("__eq__(elem) ⇔ equal residues, compared on reduced values", okeq, f"{len(paths)} paths", m.where))
    # small powers
    m = it0.find_method(S.cls, "__pow__")
    for n in (0, 1, 2, 3, 5, 8):
        def body(it, n=n):
            a, av = S.element(it, "a")
            val, red, okcls = S.read(it.call_func(m, [a, n], {}))
            ok = S.same_on(it, val, av ** n) and red and okcls
            return ok, "" if ok else f"≡ {val!r}"
        S.over_paths(body, f"__pow__({n})", m.where, out)
    return S.settle(out)


def compare_modes(S: FieldSubject):
    """how the prime-field class treats an *int* operand of its comparison operators: 'raw' (the stored residue is compared with
    the int as given), 'reduced' (the int is reduced modulo p first), 'refused' (TypeError) or 'absent'.  The two siblings must
    agree (C14: comparison is part of the statement); -> {method: mode}"""
    out = {}
    it0 = Interp(S.world, native_fields=False)
    for meth in ("__eq__", "__ne__", "__lt__", "__le__", "__gt__", "__ge__"):
        m = it0.find_method(S.cls, meth)
        if m is None:
            out[meth] = "absent"
            continue

        def body(it, m=m):
            a, _av = S.element(it, "a")
            r = it.call_func(m, [a, S.var("k")], {})
            if not isinstance(r, bool):
                it.truth(r)
            return True
        try:
            paths = alg_paths(S.world, body, AlgState(), native_fields=False, summaries=S.summ)
        except AnalysisError as e:
            out[meth] = f"undecided ({e})"[:120]
            continue
        if paths and all(p.outcome == "raise" for p in paths):
            out[meth] = "refused"
        elif any(ev["kind"] == "unreduced_compare" for p in paths for ev in p.events):
            out[meth] = "raw"
        else:
            out[meth] = "reduced"
    return out


def run_fqp(S: FieldSubject):
    out = []
    it0 = Interp(S.world, native_fields=False)
    p = S.p

    def do(meth, kind, spec, label=None):
        m = it0.find_method(S.cls, meth)
        if m is None:
            out.append((meth, False, "method missing", S.cls.module.relpath))
            return
        if kind == "fq" and S.opt:
            return

        def body(it):
            a, av = S.element(it, "a")
            if kind == "elem":
                b, bv = S.element(it, "b")
            elif kind == "int":
                b, bv = S.var("k"), Poly.var("k", p)
            elif kind == "fq":
                fqc = a.attrs["coeffs"][0].cls if isinstance(a.attrs["coeffs"][0], Instance) else None
                if fqc is None:
                    raise AnalysisError(f"{S.cls.qualname}: coefficients are not field objects")
                b = it.instantiate(fqc, [S.var("k")], {})
                bv = Poly.var("k", p)
            else:
                b, bv = None, None
            r = it.call_func(m, [a] + ([b] if kind else []), {})
            val, red, okcls = S.read(r)
            want = spec(av, bv)
            ok = S.same_on(it, val, want) and red and okcls
            return ok, "" if ok else f"result {val!r}"[:300] + f"; reduced: {red}; class preserved: {okcls}"
        S.over_paths(body, label or f"{meth}({kind or 'unary'})", m.where, out)
    do("__add__", "elem", lambda a, b: tower_add(a, b))
    do("__sub__", "elem", lambda a, b: tower_add(a, b, -1))

    # a scalar operand of + and -: refused (TypeError / no such method), or it acts as the embedded constant (k, 0, …, 0)
    def embed(k):
        return TowerSym([k] + [Poly.const(0, p)] * (S.d - 1), S.mc, p)

    def do_scalar(meth, kind, spec):
        m = it0.find_method(S.cls, meth)
        label = f"{meth}({kind}) refused or the embedded constant"
        if m is None:
            return
        if kind == "fq" and S.opt:
            return

        def body(it):
            a, av = S.element(it, "a")
            if kind == "int":
                b, bv = S.var("k"), Poly.var("k", p)
            else:
                fqc = a.attrs["coeffs"][0].cls if isinstance(a.attrs["coeffs"][0], Instance) else None
                if fqc is None:
                    raise AnalysisError(f"{S.cls.qualname}: coefficients are not field objects")
                b, bv = it.instantiate(fqc, [S.var("k")], {}), Poly.var("k", p)
            r = it.call_func(m, [a, b], {})
            if r is NotImplemented or (isinstance(r, External) and r.qual.endswith("NotImplemented")):
                return True, "returns NotImplemented"
            try:
                val, red, okcls = S.read(r)
            except AnalysisError as e:
                return False, f"result not a field element: {e}"[:200]
            ok = S.same_on(it, val, spec(av, embed(bv))) and red and okcls
            return ok, "" if ok else f"result {val!r}"[:300]
        S.over_paths(body, label, m.where, out,
                     refusal=lambda cn: cn.rsplit(".", 1)[-1] in ("TypeError", "AttributeError", "NotImplementedError"))
    for kind in ("int", "fq"):
        do_scalar("__add__", kind, lambda a, b: tower_add(a, b))
        do_scalar("__radd__", kind, lambda a, b: tower_add(a, b))
        do_scalar("__sub__", kind, lambda a, b: tower_add(a, b, -1))
        do_scalar("__rsub__", kind, lambda a, b: tower_add(b, a, -1))
    do("__neg__", None, lambda a, b: tower_scalar(a, Poly.const(-1, p)))
    do("__mul__", "elem", lambda a, b: a.mul(b))
    do("__mul__", "int", lambda a, k: tower_scalar(a, k))
    do("__rmul__", "int", lambda a, k: tower_scalar(a, k))
    do("__rmul__", "elem", lambda a, b: b.mul(a))
    do("__div__", "int", lambda a, k: tower_scalar(a, inv0_atom(k, p)))
    do("__truediv__", "int", lambda a, k: tower_scalar(a, inv0_atom(k, p)))
    if not S.opt:
        do("__mul__", "fq", lambda a, k: tower_scalar(a, k))
        do("__div__", "fq", lambda a, k: tower_scalar(a, inv0_atom(k, p)))
    for meth, wantc in (("one", 1), ("zero", 0)):
        m = it0.find_method(S.cls, meth)

        def body(it, m=m, wantc=wantc):
            val, red, okcls = S.read(it.call_func(m, [S.cls], {}))
            want = TowerSym([wantc] + [0] * (S.d - 1), S.mc, p)
            return S.same_on(it, val, want) and red and okcls, ""
        S.over_paths(body, meth, m.where, out)

    def body(it):
        a, av = S.element(it, "a")
        return S.read(a)[1] and S.same_on(it, S.read(a)[0], av), ""
    S.over_paths(body, "constructor reduces every coefficient", S.cls.module.relpath, out)
    m = it0.find_method(S.cls, "__pow__")
    for n in ((0, 1, 2, 3, 5) if S.d <= 2 else (0, 1, 2, 3)):
        def body(it, n=n):
            a, av = S.element(it, "a")
            val, red, okcls = S.read(it.call_func(m, [a, n], {}))
            ok = S.same_on(it, val, tower_pow(av, n)) and red and okcls
            return ok, "" if ok else f"{val!r}"[:200]
        S.over_paths(body, f"__pow__({n})", m.where, out)
    # a loop-free inv override (closed form) is decidable: a · a.inv() must be 1 in the quotient ring
    import ast as _ast
    m = it0.find_method(S.cls, "inv")
    if m is not None and not any(isinstance(nn, (_ast.While, _ast.For)) for nn in _ast.walk(m.node)):
        it = S.interp()
        a, av = S.element(it, "a")
        try:
            r = it.call_func(m, [a], {})
            val, red, okcls = S.read(r)
            prod = av.mul(val)
            atoms = sorted({v for c in prod.c for v in c.vars() if isinstance(v, str) and v.startswith("inv0(")})
            ok = False
            det = f"product a·inv(a) = {prod!r}"[:300]
            if len(atoms) == 1 and atoms[0] in INV_REG:
                V, den = atoms[0], INV_REG[atoms[0]]
                ok = True
                for j, c in enumerate(prod.c):
                    cs = c.coeffs_in(V)
                    lin = cs.get(1, Poly.const(0, p))
                    rest = {k: v for k, v in cs.items() if k != 1 and not v.is_zero()}
                    want = Poly(den.t, p) if j == 0 else Poly.const(0, p)
                    if rest or not (Poly(lin.t, p) - want).is_zero():
                        ok = False
                det = "" if ok else f"a·inv(a) is not 1: coefficients {prod!r}"[:300]
            out.append(("inv() closed form: a·a.inv() = 1", ok and red and okcls, det, m.where))
        except Raised as ex:
            out.append(("inv() closed form: a·a.inv() = 1", False, f"raises {ex.exc.clsname()}", m.where))
    out.extend(check_inv_paths(S))
    out.extend(fqp_eq_obligations(S))
    return S.settle(out)


def fqp_eq_obligations(S: FieldSubject):
    """equality of extension-field elements (used by the curve code for dispatch): exact on elements; with an int refused or exact"""
    out = []
    it0 = Interp(S.world, native_fields=False)
    p = S.p
    # equality
    m = it0.find_method(S.cls, "__eq__")

    def run_eq(it):
        a, av = S.element(it, "a")
        b, bv = S.element(it, "b")
        r = it.call_func(m, [a, b], {})
        return r if isinstance(r, bool) else it.truth(r)
    paths = alg_paths(S.world, run_eq, AlgState(), native_fields=False, summaries=S.summ)
    okeq = {p.value for p in paths} == {True, False}
    for pth in paths:
        zs = [pth.alg.is_zero(Rat(Poly.var(f"a{i}", p) - Poly.var(f"b{i}", p))) for i in range(S.d)]
        if pth.value is True and not all(z is True for z in zs):
            okeq = False
        if pth.value is False and all(z is True for z in zs):
            okeq = False
    out.append(("__eq__ ⇔ all coefficients equal", okeq, f"{len(paths)} paths", m.where))
    # equality with an integer k: refused (TypeError), or exact — equal to the embedded constant (k mod p, 0, …, 0)

    def run_eq_int(it):
        a, av = S.element(it, "a")
        r = it.call_func(m, [a, S.var("k")], {})
        return r if isinstance(r, bool) else it.truth(r)
    try:
        ipaths = alg_paths(S.world, run_eq_int, AlgState(), native_fields=False, summaries=S.summ)
    except AnalysisError as ex:
        ipaths = None
        out.append(("__eq__(int) refused or exact", False, f"not analysable: {ex}", m.where))
    if ipaths is not None:
        okint, why = True, ""
        if all(pp.outcome == "raise" for pp in ipaths):
            okint = all(pp.value.clsname() == "builtins.TypeError" for pp in ipaths)
            why = "refused with " + ", ".join(sorted({pp.value.clsname() for pp in ipaths}))
        else:
            for pp in ipaths:
                if pp.outcome != "return":
                    okint, why = False, f"raises {pp.value.clsname()} on some path only"
                    continue
                zs = [pp.alg.is_zero(Rat(Poly.var("a0", p) - Poly.var("k", p)))] + \
                     [pp.alg.is_zero(Rat(Poly.var(f"a{i}", p))) for i in range(1, S.d)]
                if pp.value is True and not all(z is True for z in zs):
                    okint, why = False, "returns True although a higher coefficient may be non-zero / a0 may differ from k"
                if pp.value is False and all(z is True for z in zs):
                    okint, why = False, "returns False for the embedded constant"
        out.append(("__eq__(int) refused (TypeError) or ⇔ element is the embedded constant", okint, why or f"{len(ipaths)} paths", m.where))
    return out
