"""Oracle side for the byte-level constructions, written as terms (E8).
RFC 5869 (HKDF), RFC 9380 §5.3.1 (expand_message_xmd) and §5.2 (hash_to_field),
draft-irtf-cfrg-bls-signature-04 §2.3 (KeyGen), RFC 6979 §3.2 (nonce).
Written from the specifications; nothing is read from the repository."""
from ..term import Term, t_concat, t_slice, t_len, t_digest_size, t_block_size, t_arith


def I2OSP(x, n):
    if isinstance(x, int):
        return x.to_bytes(n, "big")
    return Term("i2osp", (x, n), "bytes")


def OS2IP(b):
    if isinstance(b, bytes):
        return int.from_bytes(b, "big")
    return Term("os2ip", (b,), "int")


def H(fn, data):
    return Term("H", (fn, data), "bytes")


def HMAC(fn, key, msg):
    return Term("HMAC", (fn, key, msg), "bytes")


def hkdf_extract(fn, salt, ikm):
    return HMAC(fn, salt, ikm)


def hkdf_expand(fn, prk, info, L, n):
    """first L bytes of T(1) ‖ … ‖ T(n), T(i) = HMAC(PRK, T(i-1) ‖ info ‖ i)"""
    t = b""
    out = []
    for i in range(1, n + 1):
        t = HMAC(fn, prk, t_concat([t, info, bytes([i])]))
        out.append(t)
    return t_slice(t_concat(out), 0, L)


def keygen_attempt(fn, salt, ikm, key_info, r):
    """one attempt of KeyGen (draft v4 §2.3): returns (salt', SK')"""
    salt2 = H(fn, salt)
    prk = hkdf_extract(fn, salt2, t_concat([ikm, I2OSP(0, 1)]))
    okm = hkdf_expand(fn, prk, t_concat([key_info, I2OSP(48, 2)]), 48, 2)
    return salt2, t_arith("mod", OS2IP(okm), r)


def xor(a, b):
    from ..term import t_xor
    return t_xor(a, b)


def expand_message_xmd(fn, msg, dst, L, ell):
    """RFC 9380 §5.3.1 with ell = ceil(L / b) fixed by the case split"""
    dst_prime = t_concat([dst, I2OSP(t_len(dst), 1)])
    s = t_block_size(fn)
    z_pad = (b"\x00" * s) if isinstance(s, int) else Term("repeat", (b"\x00", s), "bytes")
    lib = I2OSP(L, 2)
    b0 = H(fn, t_concat([z_pad, msg, lib, I2OSP(0, 1), dst_prime]))
    bs = []
    if ell >= 1:
        bs.append(H(fn, t_concat([b0, I2OSP(1, 1), dst_prime])))
    for i in range(2, ell + 1):
        bs.append(H(fn, t_concat([xor(b0, bs[-1]), I2OSP(i, 1), dst_prime])))
    return t_slice(t_concat(bs), 0, L)


def hash_to_field(fn, msg, dst, count, m, Lk, p):
    """RFC 9380 §5.2: count elements of m coordinates, L = Lk bytes each"""
    n = count * m * Lk
    b = t_digest_size(fn)
    ell = -(-n // b)
    uni = expand_message_xmd(fn, msg, dst, n, ell)
    out = []
    for i in range(count):
        e = []
        for j in range(m):
            off = Lk * (j + i * m)
            e.append(t_arith("mod", OS2IP(t_slice(uni, off, off + Lk)), p))
        out.append(tuple(e))
    return out


def rfc6979_k(x_octets, h_octets, fn):
    """RFC 6979 §3.2 steps b-h with int2octets(x) := x_octets and
    bits2octets(h1) := h_octets taken as given (libsecp256k1 / Ethereum
    convention), first candidate (no retry)."""
    V = b"\x01" * 32
    K = b"\x00" * 32
    K = HMAC(fn, K, t_concat([V, b"\x00", x_octets, h_octets]))
    V = HMAC(fn, K, V)
    K = HMAC(fn, K, t_concat([V, b"\x01", x_octets, h_octets]))
    V = HMAC(fn, K, V)
    V = HMAC(fn, K, V)
    return V
