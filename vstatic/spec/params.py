"""Oracle side: published numbers re-derived from the two curve parameters, and
the few literal tables that cannot be derived (generators, SEC 2, IETF tags).
Nothing here is read from the repository."""

# ---------------------------------------------------------------- BLS12-381
BLS_X = -0xd201000000010000


def bls12_params(x=BLS_X):
    r = x**4 - x**2 + 1
    p = (x - 1) ** 2 * r // 3 + x
    t = x + 1                                   # trace of Frobenius over F_p
    h1 = (x - 1) ** 2 // 3                      # #E(F_p) = h1 * r
    h2 = (x**8 - 4 * x**7 + 5 * x**6 - 4 * x**4 + 6 * x**3 - 4 * x**2 - 4 * x + 13) // 9
    return {
        "x": x, "p": p, "r": r, "t": t, "h1": h1, "h2": h2,
        "n1": p + 1 - t,
        "h_eff_g1": 1 - x,                      # RFC 9380 §8.8.1
        "h_eff_g2": h2 * (3 * x**2 - 3),        # RFC 9380 §8.8.2 (Budroni-Pintore)
        "ate_loop_count": abs(x),
    }


BLS = bls12_params()

# ---------------------------------------------------------------- BN254 (alt_bn128)
BN_U = 4965661367192848881


def bn_params(u=BN_U):
    p = 36 * u**4 + 36 * u**3 + 24 * u**2 + 6 * u + 1
    r = 36 * u**4 + 36 * u**3 + 18 * u**2 + 6 * u + 1
    t = 6 * u**2 + 1
    return {"u": u, "p": p, "r": r, "t": t, "n1": p + 1 - t, "ate_loop_count": 6 * u + 2}


BN = bn_params()

# standard generators (literal tables; ZCash / EIP-197)
BLS_G1 = (
    0x17f1d3a73197d7942695638c4fa9ac0fc3688c4f9774b905a14e3a3f171bac586c55e83ff97a1aeffb3af00adb22c6bb,
    0x08b3f481e3aaa0f1a09e30ed741d8ae4fcf5e095d5d00af600db18cb2c04b3edd03cc744a2888ae40caa232946c5e7e1,
)
BLS_G2 = (
    (0x024aa2b2f08f0a91260805272dc51051c6e47ad4fa403b02b4510b647ae3d1770bac0326a805bbefd48056c8c121bdb8,
     0x13e02b6052719f607dacd3a088274f65596bd0d09920b61ab5da61bbdc7f5049334cf11213945d57e5ac7d055d042b7e),
    (0x0ce5d527727d6e118cc9cdc6da2e351aadfd9baa8cbdd3a76d429a695160d12c923ac9cc3baca289e193548608b82801,
     0x0606c4a02ea734cc32acd2b02bc28b99cb3e287e85a763af267492ab572e99ab3f370d275cec1da1aaa9075ff05f79be),
)
BN_G1 = (1, 2)
BN_G2 = (
    (10857046999023057135944570762232829481370756359578518086990519993285655852781,
     11559732032986387107991004021392285783925812861821192530917403151452391805634),
    (8495653923123431417604973247489272438418190587263600148770280649306958101930,
     4082367875863433681332203403145435568316851327593401208105741076214120093531),
)

# ---------------------------------------------------------------- secp256k1 (SEC 2 v2 §2.4.1)
SECP_P = 0xFFFFFFFFFFFFFFFFFFFFFFFFFFFFFFFFFFFFFFFFFFFFFFFFFFFFFFFEFFFFFC2F
SECP_N = 0xFFFFFFFFFFFFFFFFFFFFFFFFFFFFFFFEBAAEDCE6AF48A03BBFD25E8CD0364141
SECP_A = 0
SECP_B = 7
SECP_GX = 0x79BE667EF9DCBBAC55A06295CE870B07029BFCDB2DCE28D959F2815B16F81798
SECP_GY = 0x483ADA7726A3C4655DA4FBFC0E1108A8FD17B448A68554199C47D08FFB10D4B8

# ---------------------------------------------------------------- IETF BLS signature draft v4 §4.2
IETF_TAGS = {
    "G2Basic.DST": b"BLS_SIG_BLS12381G2_XMD:SHA-256_SSWU_RO_NUL_",
    "G2MessageAugmentation.DST": b"BLS_SIG_BLS12381G2_XMD:SHA-256_SSWU_RO_AUG_",
    "G2ProofOfPossession.DST": b"BLS_SIG_BLS12381G2_XMD:SHA-256_SSWU_RO_POP_",
    "G2ProofOfPossession.POP_TAG": b"BLS_POP_BLS12381G2_XMD:SHA-256_SSWU_RO_POP_",
}
KEYGEN_SALT = b"BLS-SIG-KEYGEN-SALT-"
