"""C08.R4: extended-Euclid invariant of prime_field_inv / secp256k1.inv, and
C08.R5/R6: power schema and operator-dispatched recursion."""
from __future__ import annotations

import ast

from .term import AnalysisError, AbstractValue, Term, var, show
from .poly import Poly
from .interp import Interp, World, enumerate_paths, _assigned_names, _Break, _Continue, Raised


class ZSym(AbstractValue):
    """an integer given as a polynomial over Z in named atoms"""
    sort = "int"
    counter = [0]

    def __init__(self, p):
        self.p = p if isinstance(p, Poly) else Poly.const(p)

    @staticmethod
    def fresh(prefix):
        ZSym.counter[0] += 1
        return ZSym(Poly.var(f"{prefix}{ZSym.counter[0]}"))

    def _l(self, o):
        if isinstance(o, ZSym):
            return o.p
        if isinstance(o, bool):
            o = int(o)
        if isinstance(o, int):
            return Poly.const(o)
        return None

    def v_binop(self, op, other, reflected, it):
        o = self._l(other)
        if o is None:
            return NotImplemented
        a, b = (o, self.p) if reflected else (self.p, o)
        if op == "add":
            return ZSym(a + b)
        if op == "sub":
            return ZSym(a - b)
        if op == "mul":
            return ZSym(a * b)
        if op == "mod":
            q = ZSym.fresh("q")
            it.emit("zmod", value=a, modulus=b, quotient=q.p)
            return ZSym(a - b * q.p)          # a % b = a − b·⌊a/b⌋
        if op == "floordiv":
            d = ZSym.fresh("d")
            it.emit("zdiv", num=a, den=b, quotient=d.p)
            return d
        raise AnalysisError(f"operator {op} on a symbolic integer")

    def v_compare(self, op, other, it):
        o = self._l(other)
        if o is None:
            return NotImplemented
        return Term("zcmp", (op, repr(self.p), repr(o)), "bool")

    def v_isinstance(self, T, it):
        return T == "int"

    def v_int(self, it):
        return self                  # int() of an int

    def __repr__(self):
        return f"Z<{self.p!r}>"

    def __deepcopy__(self, memo):
        return self


def divisible_by_var(p: Poly, v):
    return all(any(x == v for x, _ in m) for m in p.t)


def check_euclid(world: World, f, total=True):
    """returns list of (key, ok, detail).  f(a, n): inverse of a modulo n with inv0(0) = 0.
    total: the routine is handed unreduced operands (field division by an int): zero is every multiple of n.  With total=False
    the routine is only claimed on residues 0 <= a < n (secp256k1.inv: its callers hand it reduced coordinates, C18/C19)"""
    res = []
    a, n = ZSym(Poly.var("a")), ZSym(Poly.var("n"))
    info = {}

    def hook(it, st, fr):
        # roles (lm, hm, low, high) are found from the loop itself, not from the variable names:
        #   low  = the variable the loop test compares with 1;   high = the one that receives the old low;
        #   hm   = the one that receives the old value of a third variable, which is lm
        from .interp import _assigned_names
        carried = [nm for nm in sorted(_assigned_names(st.body)) if nm in fr.env]
        test = ast.unparse(st.test).replace(" ", "")
        lowname = None
        for nm in carried:
            if test in (f"{nm}>1", f"1<{nm}", f"{nm}>=2", f"2<={nm}"):
                lowname = nm
        if len(carried) != 4 or lowname is None:
            raise AnalysisError(f"{it.where(st)}: Euclid loop not recognised (loop-carried variables {carried}, test `{test}`)")
        saved = dict(fr.env)
        nev = len(it.events)
        for nm in carried:
            fr.env[nm] = ZSym(Poly.var("V_" + nm))
        try:
            it.exec_block(st.body, fr)
        except (_Break, _Continue):
            raise AnalysisError("break/continue in the Euclid loop")
        after = {nm: fr.env.get(nm) for nm in carried}
        fr.env.clear()
        fr.env.update(saved)
        del it.events[nev:]

        def receives(old):
            return [nm for nm in carried if isinstance(after[nm], ZSym) and (after[nm].p - Poly.var("V_" + old)).is_zero()]
        highs = [nm for nm in receives(lowname) if nm != lowname]
        role = None
        if len(highs) == 1:
            rest = [nm for nm in carried if nm not in (lowname, highs[0])]
            for lm_, hm_ in ((rest[0], rest[1]), (rest[1], rest[0])):
                if hm_ in receives(lm_):
                    role = (lm_, hm_, lowname, highs[0])
        if role is None:
            raise AnalysisError(f"{it.where(st)}: Euclid loop not recognised (no rotation low→high, lm→hm among {carried})")
        names = role
        info["test_role"] = test.replace(lowname, "low")
        A = fr.env.get("a")
        if not isinstance(A, ZSym):
            raise AnalysisError(f"{it.where(st)}: argument a lost")
        info["entered"] = True
        ap = A.p                               # a (possibly already reduced: a − n·q)

        def inv_holds(state):
            lm, hm, low, high = (ZSym(x).p if not isinstance(x, ZSym) else x.p for x in state)
            return divisible_by_var(lm * ap - low, "n") and divisible_by_var(hm * ap - high, "n")
        s0 = tuple(fr.env[x] for x in names)
        info["init"] = info.get("init", True) and inv_holds(s0)
        # the loop leaves with low <= 1; that is low = 1 only if low stays positive, i.e. starts as a residue in [1, n−1]:
        # the value of some `… % n` (the zero residue having returned early)
        low0 = s0[2].p if isinstance(s0[2], ZSym) else None
        is_res = low0 is not None and any(
            ev["kind"] == "zmod" and (ev["modulus"] - Poly.var("n")).is_zero()
            and (ev["value"] - ev["modulus"] * ev["quotient"] - low0).is_zero() for ev in it.events)
        info["residue"] = info.get("residue", True) and is_res
        # … and a zero residue must have been excluded on this path: a test `x == 0` (false here) on a value x that is itself
        # the residue of a modulo n (low0, or another `… % n` congruent to it)
        resid = {repr(ev["value"] - ev["modulus"] * ev["quotient"]) for ev in it.events
                 if ev["kind"] == "zmod" and (ev["modulus"] - Poly.var("n")).is_zero()
                 and low0 is not None and divisible_by_var(ev["value"] - low0, "n")}
        excluded = [at.args[1] for at, tv in it.facts.items() if isinstance(at, Term) and at.op == "zcmp" and at.args[2] == "0"
                    and ((at.args[0] == "==" and tv is False) or (at.args[0] == "!=" and tv is True))]
        zt = any(x in resid for x in excluded)
        info["ztest"] = info.get("ztest", True) and zt
        if not zt:
            info.setdefault("ztest_detail", f"zero excluded for {excluded or 'nothing'}; residues of a modulo n on the path: {sorted(resid) or 'none'}")
        if not is_res:
            info.setdefault("residue_detail", f"low starts as {low0!r} on path {' '.join(w for _c, w in it.oracle.trace) or '(straight)'}")
        # arbitrary state satisfying the invariant
        lm, hm = ZSym(Poly.var("LM")), ZSym(Poly.var("HM"))
        low = ZSym(lm.p * ap - Poly.var("n") * Poly.var("U1"))
        high = ZSym(hm.p * ap - Poly.var("n") * Poly.var("U2"))
        for k, v in zip(names, (lm, hm, low, high)):
            fr.env[k] = v
        nz0 = len(it.events)
        try:
            it.exec_block(st.body, fr)
        except (_Break, _Continue):
            raise AnalysisError("break/continue in the Euclid loop")
        s1 = tuple(fr.env[x] for x in names)
        info["preserved"] = inv_holds(s1)
        # termination: new low is `high − low·(high // low)` = high mod low < low
        divs = [ev for ev in it.events[nz0:] if ev["kind"] == "zdiv"]
        new_low = fr.env[names[2]]
        dec = False
        for ev in divs:
            if ev["num"] == high.p and ev["den"] == low.p and isinstance(new_low, ZSym) and \
                    (new_low.p - (high.p - low.p * ev["quotient"])).is_zero():
                dec = True
        info["decreases"] = dec
        info["rotates"] = isinstance(fr.env[names[3]], ZSym) and (fr.env[names[3]].p - low.p).is_zero() and \
            isinstance(fr.env[names[1]], ZSym) and (fr.env[names[1]].p - lm.p).is_zero()
        # loop condition is `low > 1`
        info["cond"] = info["test_role"]
        # exit state: arbitrary invariant state with low = 1
        fr.env[names[0]], fr.env[names[1]] = ZSym(Poly.var("LMx")), ZSym(Poly.var("HMx"))
        fr.env[names[2]], fr.env[names[3]] = ZSym(Poly.var("LOWx")), ZSym(Poly.var("HIGHx"))
        return None

    def run(it):
        return it.call_func(f, [a, n], {})
    # the loop may live in a callee (a memoising or type-dispatching wrapper around the routine): any loop met is held to the schema
    paths = enumerate_paths(world, run, while_hooks={"*": hook})
    # precondition: n is a modulus, n >= 2 — a path that needs n < 2 (an argument guard) is outside the claim
    def _needs_small_n(p):
        for atom, truth, _ in p.facts:
            if isinstance(atom, Term) and atom.op == "zcmp" and atom.args[1] == "n":
                try:
                    c = int(atom.args[2])
                except (TypeError, ValueError):
                    continue
                op = atom.args[0]
                # the set of n >= 2 satisfying (n op c) == truth is empty?
                sat = {"<": c > 2, "<=": c >= 2, "==": c >= 2, "!=": True, ">": True, ">=": True}[op]
                if truth and not sat:
                    return True
                if not truth and op in (">", ">=") and ((op == ">" and c < 2) or (op == ">=" and c <= 2)):
                    return True
        return False
    paths = [p for p in paths if not _needs_small_n(p)]
    early = [p for p in paths if p.outcome == "return" and isinstance(p.value, int) and p.value == 0
             and not any(ev["kind"] == "zdiv" for ev in p.events)]
    loopp = [p for p in paths if p.outcome == "return" and isinstance(p.value, ZSym)]
    other = [p for p in paths if p not in early and p not in loopp]
    res.append(("a ≡ 0 returns 0 before the loop (inv0)", len(early) >= 1 and all(_zero_test_ok(e) for e in early) and not other,
                f"{len(early)} early-return path(s)" + (f"; {len(other)} path(s) neither return 0 early nor the loop result: "
                                                         f"{other[0].outcome} {show(other[0].value)[:60]}" if other else "")))
    res.append(("invariant lm·a ≡ low, hm·a ≡ high (mod n) holds initially", info.get("init") is True, ""))
    if total:
      res.append(("a zero residue cannot enter the loop: the zero test is made on a % n, not on the raw argument (a non-zero multiple of n is a zero too)",
                  info.get("ztest") is True, info.get("ztest_detail", "")))
    res.append(("low enters the loop as a residue a % n in [1, n−1] (a negative or unreduced start would leave the loop with low ≠ 1)",
                info.get("residue") is True, info.get("residue_detail", "")))
    res.append(("invariant preserved by the loop body for every quotient", info.get("preserved") is True, ""))
    res.append(("loop runs while low > 1; low is replaced by high mod low (< low) and (hm, high) by (lm, low): terminates",
                info.get("decreases") is True and info.get("rotates") is True and info.get("cond") in ("low>1", "1<low", "low>=2", "2<=low"),
                f"condition `{info.get('cond')}`"))
    okret = bool(loopp)
    for p in loopp:
        # returned value is lm % n: ≡ lm (mod n)
        okret = okret and divisible_by_var(p.value.p - Poly.var("LMx"), "n")
    res.append(("result is lm mod n (so low = 1 gives lm·a ≡ 1)", okret, f"{len(loopp)} path(s)"))
    return res


def _zero_test_ok(p):
    """the early return is taken exactly when (a mod n) == 0"""
    for atom, truth, _ in p.facts:
        if isinstance(atom, Term) and atom.op == "zcmp" and atom.args[2] == "0" and (
                (atom.args[0] == "==" and truth) or (atom.args[0] == "!=" and not truth)):
            return True
    return False


# ---------------------------------------------------------------------------
# power schema
# ---------------------------------------------------------------------------

class PowSym(AbstractValue):
    """self^e with a polynomial exponent; the object under exponentiation"""
    sort = "field"

    def __init__(self, e, owner):
        self.e = e if isinstance(e, Poly) else Poly.const(e)
        self.owner = owner

    def v_binop(self, op, other, reflected, it):
        if op == "mul" and isinstance(other, PowSym):
            return PowSym(self.e + other.e, self.owner)
        if op == "pow" and not reflected:
            # operator-dispatched re-entry into __pow__
            self.owner["reentry"].append(it.where())
            ex = exponent_poly(other)
            self.owner["rec_exponents"].append((other, dict(it.facts)))
            return PowSym(self.e * ex, self.owner)
        raise AnalysisError(f"operator {op} on a formal power")

    def v_getattr(self, name, it):
        if name == "degree":
            return self.owner["degree"]
        if name in ("n", "coeffs"):
            return _SelfData(self)
        if name == "field_modulus":
            return var("field_modulus", "int")
        raise AnalysisError(f"attribute {name} of a formal power")

    def v_type(self, it):
        return _PowClass(self.owner)


class _SelfData(AbstractValue):
    """the stored representative (.n / .coeffs) of a formal power"""
    sort = "int"

    def __init__(self, ps):
        self.ps = ps

    def v_pow3(self, args, it):
        """pow(self.n, e, field_modulus): the representative of self^e, provided e >= 0 on this path (a negative exponent
        would make the builtin compute an inverse) and the modulus is the field's"""
        from .ranges import interval_of_facts
        if len(args) != 3 or args[0] is not self:
            raise AnalysisError("three-argument pow on a formal power in exponent or modulus position")
        _b, e, m = args
        if not (isinstance(m, Term) and m.op == "var" and m.args[0] == "field_modulus"):
            raise AnalysisError(f"three-argument pow with modulus {show(m)[:60]}, expected the field modulus")
        if isinstance(e, Term):
            lo, _hi, _h, _o = interval_of_facts(list(it.facts.items()), e)
            if e.op == "mod":
                lo = max(lo, 0)       # a residue modulo (field_modulus − c), c <= 1, is not negative
            if lo < 0:
                raise AnalysisError(f"three-argument pow with a possibly negative exponent {show(e)[:60]}")
        elif not isinstance(e, int) or e < 0:
            raise AnalysisError(f"three-argument pow with exponent {e!r}")
        return _SelfData(PowSym(self.ps.e * exponent_poly(e), self.ps.owner))


class _PowClass:
    def __init__(self, owner):
        self.owner = owner

    def __call__(self, arg):
        d = self.owner["degree"]
        if arg == 1 or arg == [1] + [0] * ((d or 1) - 1):
            return PowSym(0, self.owner)
        if isinstance(arg, _SelfData):
            return PowSym(arg.ps.e, self.owner)
        raise AnalysisError(f"constructor call with {arg!r} inside __pow__")


def exponent_poly(t):
    if isinstance(t, bool):
        t = int(t)
    if isinstance(t, int):
        return Poly.const(t)
    if isinstance(t, Term):
        if t.op == "var":
            return Poly.var(t.args[0])
        if (t.op == "floordiv" and t.args[1] == 2) or (t.op == "rshift" and t.args[1] == 1):
            if isinstance(t.args[0], Term) and t.args[0].op == "var":
                return Poly.var("h")
        if t.op == "int":
            return exponent_poly(t.args[0])
    return Poly.var(show(t))


def check_pow(world: World, m, degree):
    """m: the __pow__ FuncRef.  Returns (results, reentry sites)."""
    from .scalarmul import parity_of_facts
    from .ranges import interval_of_facts, INF
    n = var("other", "int")
    owner = {"degree": degree, "reentry": [], "rec_exponents": []}
    res = []
    winfo = {}

    def whook(it, st, fr):
        # loop invariant  acc · base^e = self^N  in exponents: e_acc + e_base·e = N   (roles found from the loop body, not by name)
        from .interp import _assigned_names
        names = [nm for nm in sorted(_assigned_names(st.body)) if nm in fr.env]
        pows = [nm for nm in names if isinstance(fr.env[nm], PowSym)]
        ints = [nm for nm in names if nm not in pows]
        if len(pows) != 2 or len(ints) != 1:
            raise AnalysisError(f"{it.where(st)}: accumulator/base of the power loop not recognised "
                                f"(loop-carried: {names})")
        ename = ints[0]
        oth = fr.env[ename]
        cond = ast.unparse(st.test).replace(" ", "").replace(ename, "other")
        winfo["cond"] = cond
        saved = dict(fr.env)
        sfacts = dict(it.facts)
        verdict = None
        for O, T in ((pows[0], pows[1]), (pows[1], pows[0])):
            o, t = saved[O], saved[T]
            init = (o.e + t.e * exponent_poly(oth) - Poly.var("other")).is_zero()
            ok_all = True
            detail = None
            for b in (0, 1):
                EO, ET = Poly.var("EO"), Poly.var("ET")
                fr.env.clear()
                fr.env.update(saved)
                it.facts.clear()
                it.facts.update(sfacts)
                fr.env[O], fr.env[T] = PowSym(EO, owner), PowSym(ET, owner)
                cur = var("cur", "int")
                fr.env[ename] = cur
                it.facts[Term("eq", (0, Term("and", (cur, 1), "int")), "bool")] = (b == 0)
                it.facts[Term("eq", (0, Term("mod", (cur, 2), "int")), "bool")] = (b == 0)
                it.facts[Term("eq", (1, Term("and", (cur, 1), "int")), "bool")] = (b == 1)
                it.facts[Term("eq", (1, Term("mod", (cur, 2), "int")), "bool")] = (b == 1)
                try:
                    it.exec_block(st.body, fr)
                except (_Break, _Continue):
                    raise AnalysisError("break/continue in the power loop")
                o2, t2, oth2 = fr.env[O], fr.env[T], fr.env[ename]
                if not (isinstance(o2, PowSym) and isinstance(t2, PowSym)):
                    ok_all = False
                    continue
                h = Poly.var("h")
                halves = isinstance(oth2, Term) and ((oth2.op == "rshift" and oth2.args == (cur, 1)) or (oth2.op == "floordiv" and oth2.args == (cur, 2)))
                inv_after = o2.e + t2.e * h
                inv_before = EO + ET * (Poly.const(2) * h + Poly.const(b))
                diff = inv_after - inv_before
                # a path of the body that tested the halved exponent and found it zero (`if other: t = t * t` — the last,
                # unread squaring skipped): h = 0 there
                if halves and any(isinstance(a_, Term) and a_.op == "eq" and tv_ is True and 0 in a_.args and oth2 in a_.args
                                  for a_, tv_ in it.facts.items()):
                    diff = diff.subs({"h": Poly.const(0)})
                if not (halves and diff.is_zero()):
                    ok_all = False
                    detail = (f"bit {b}: acc·base^e after the body has exponent {inv_after!r}, before {inv_before!r}; "
                              f"exponent halves: {halves}")
            if verdict is None or (init and ok_all):
                verdict = (O, T, init, ok_all, detail)
            if init and ok_all:
                break
        fr.env.clear()
        fr.env.update(saved)
        it.facts.clear()
        it.facts.update(sfacts)
        O, T, init, ok_all, detail = verdict
        winfo["init"] = winfo.get("init", True) and init          # every path that reaches the loop must establish it
        winfo["preserved"] = winfo.get("preserved", True) and ok_all
        if not init:
            winfo.setdefault("detail", f"on path {' '.join(w for _c, w in it.oracle.trace) or '(straight)'} the loop starts with "
                                       f"exponent {show(oth)[:80]}: acc·base^e ≠ self^other")
        if detail:
            winfo.setdefault("detail", detail)
        # exit: e == 0, result acc with exponent N
        fr.env[O] = PowSym(Poly.var("other"), owner)
        fr.env[ename] = 0
        return None

    def run(it):
        return it.call_func(m, [PowSym(1, owner), n], {})
    paths = enumerate_paths(world, run, while_hooks={m.qualname: whook})
    if winfo:
        res.append(("loop invariant o·t^other' = self^other holds initially", winfo.get("init") is True, ""))
        res.append(("loop invariant preserved for both values of the low bit; exponent halves each round (terminates)",
                    winfo.get("preserved") is True and winfo.get("cond") in ("other>0", "0<other", "other!=0", "other"),
                    winfo.get("detail", f"condition `{winfo.get('cond')}`")))
    for p in paths:
        pl = " ".join(p.branch_lines()) or "(straight)"
        if p.outcome != "return" or not isinstance(p.value, PowSym):
            res.append((f"path {pl}", False, f"{p.outcome} {show(p.value)[:60]}"))
            continue
        facts = [(a, t) for a, t, _ in p.facts]
        lo, hi, holes, _ = interval_of_facts(facts, n)
        sub = {}
        if lo == hi and lo not in (INF, -INF):
            sub = {"other": Poly.const(int(lo)), "h": Poly.const(int(lo) // 2)}
        else:
            b = parity_of_facts(facts, n)
            sub = {"other": Poly.const(2) * Poly.var("h") + (Poly.const(b) if b is not None else Poly.var("b"))}
        d = (p.value.e - Poly.var("other")).subs(sub).subs(sub)
        res.append((f"path {pl}", d.is_zero(), f"returns self^({p.value.e!r}), specification self^other" + ("" if d.is_zero() else f"; residue {d!r}")))
    return res, owner["reentry"]
