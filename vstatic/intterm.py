"""integer terms: evaluation under a finite assignment (truth tables) and
conversion to polynomials modulo a prime (algebraic identities)"""
from __future__ import annotations

from .term import AnalysisError, Term, show, atom_of
from .poly import Poly

_OPS = {"add": lambda a, b: a + b, "sub": lambda a, b: a - b, "mul": lambda a, b: a * b,
        "mod": lambda a, b: a % b, "floordiv": lambda a, b: a // b, "xor": lambda a, b: a ^ b,
        "and": lambda a, b: a & b, "or": lambda a, b: a | b, "lshift": lambda a, b: a << b,
        "rshift": lambda a, b: a >> b, "pow": lambda a, b: a ** b}


def eval_term(t, env):
    """env: dict Term -> int/bool.  Raises KeyError for an unassigned atom."""
    if isinstance(t, (int, bool)):
        return t
    if t in env:
        return env[t]
    if isinstance(t, Term):
        if t.op in _OPS:
            return _OPS[t.op](eval_term(t.args[0], env), eval_term(t.args[1], env))
        if t.op == "eq":
            return eval_term(t.args[0], env) == eval_term(t.args[1], env)
        if t.op == "lt":
            return eval_term(t.args[0], env) < eval_term(t.args[1], env)
        if t.op == "not":
            return not eval_term(t.args[0], env)
        if t.op == "b2i":
            return int(bool(eval_term(t.args[0], env)))
    raise KeyError(t)


def to_poly(t, modulus, names=None, inv_pairs=None):
    """integer term -> polynomial over Z/modulus; `% modulus` is the identity;
    inv(x, modulus) terms become fresh variables recorded in inv_pairs (var -> x poly);
    other opaque sub-terms become variables named by `names` or their text."""
    names = names or {}
    if inv_pairs is None:
        inv_pairs = {}

    def go(x):
        if isinstance(x, bool):
            x = int(x)
        if isinstance(x, int):
            return Poly.const(x, modulus)
        if x in names:
            return Poly.var(names[x], modulus)
        if isinstance(x, Term):
            if x.op in ("add", "sub", "mul"):
                a, b = go(x.args[0]), go(x.args[1])
                return a + b if x.op == "add" else a - b if x.op == "sub" else a * b
            if x.op == "mod" and x.args[1] == modulus:
                return go(x.args[0])
            if x.op == "pow" and isinstance(x.args[1], int) and x.args[1] >= 0:
                return go(x.args[0]) ** x.args[1]
            if x.op == "inv" and x.args[1] == modulus:
                inner = go(x.args[0])
                nm = f"inv({inner!r})"
                inv_pairs[nm] = inner
                return Poly.var(nm, modulus)
            nm = names.get(x) or show(x)[:60]
            return Poly.var(nm, modulus)
        raise AnalysisError(f"not an integer term: {x!r}")
    return go(t)


def cancel_inverses(p: Poly, inv_pairs):
    """rewrite v * inv(v) -> 1 for single-variable inverses (inv_pairs: name -> Poly of one variable)"""
    for invname, inner in inv_pairs.items():
        if len(inner.t) == 1 and list(inner.t.values())[0] == 1 and len(list(inner.t)[0]) == 1 and list(inner.t)[0][0][1] == 1:
            v = list(inner.t)[0][0][0]
            t = {}
            for m, c in p.t.items():
                d = dict(m)
                k = min(d.get(v, 0), d.get(invname, 0))
                if k:
                    for nm in (v, invname):
                        if d[nm] == k:
                            del d[nm]
                        else:
                            d[nm] -= k
                mm = tuple(sorted(d.items(), key=lambda x: str(x[0])))
                t[mm] = t.get(mm, 0) + c
            p = Poly(t, p.mod)
    return p
