"""Lock-step analysis of the Miller loops (C05.R3, C12.R4/R5) in a formal
domain: points are integer multiples of Q (plus Frobenius images), the Miller
value is a formal product of line evaluations with integer exponents."""
from __future__ import annotations

from .term import AnalysisError, AbstractValue, Term, var, show
from .poly import Poly
from .interp import Interp, World, enumerate_paths, _hashable
from .scalarmul import GroupSym, CoordOf, CoordConst
from .fieldmodel import FieldVal


class Frob(AbstractValue):
    """coordinate idx of pt raised k times to the p-th power, sign s"""
    sort = "field"

    def __init__(self, pt, idx, k, sign=1):
        self.pt, self.idx, self.k, self.sign = pt, idx, k, sign

    def v_binop(self, op, other, reflected, it):
        if op == "pow" and not reflected and other == it.miller_p:
            return Frob(self.pt, self.idx, self.k + 1, self.sign)
        raise AnalysisError(f"operator {op} on a Frobenius coordinate")

    def __neg__(self):
        return Frob(self.pt, self.idx, self.k, -self.sign)


class DerivedCoord(AbstractValue):
    """a field value computed from formal coordinates by arithmetic the formal domain does not follow"""
    sort = "field"

    def __init__(self, desc):
        self.desc = desc

    def v_binop(self, op, other, reflected, it):
        return DerivedCoord(f"{op}(…)")

    def __neg__(self):
        return DerivedCoord("neg(…)")

    def v_getattr(self, name, it):
        if name in ("one", "zero"):
            return lambda: DerivedCoord(name)
        if name == "n":
            return self
        if name == "coeffs":
            return (self,)
        raise AnalysisError(f"attribute {name} of a derived coordinate")

    def v_compare(self, op, other, it):
        return Term("derived_cmp", (op, id(self)), "bool")

    def __repr__(self):
        return f"<derived {self.desc}>"

    def __deepcopy__(self, memo):
        return self


def coord_pow(self, op, other, reflected, it):
    if op == "pow" and not reflected and other == getattr(it, "miller_p", None):
        return Frob(self.pt, self.idx, 1)
    if getattr(it, "allow_derived_coords", False):
        return DerivedCoord(f"{op} on coordinate {self.idx} of {getattr(self.pt, 'name', '?')}")
    raise AnalysisError(f"operator {op} on a formal coordinate")


CoordConst.v_binop = lambda self, op, other, reflected, it: (DerivedCoord(f"{op} on {self.which}")
                                                             if getattr(it, "allow_derived_coords", False) else NotImplemented)


CoordOf.v_binop = coord_pow


def coord_cmp(self, op, other, it):
    if op in ("==", "!="):
        zero = (isinstance(other, int) and other == 0) or (isinstance(other, CoordConst) and other.which == "zero") or \
            (isinstance(other, FieldVal) and (other.v == 0 or (isinstance(other.v, tuple) and not any(other.v))))
        if zero:
            t = Term("coord_is_zero", (self.pt.name if hasattr(self.pt, "name") else id(self.pt), self.idx), "bool")
            return t if op == "==" else Term("not", (t,), "bool")
    return NotImplemented


CoordOf.v_compare = coord_cmp
_coord_getattr0 = CoordOf.v_getattr


def _coord_getattr(self, name, it):
    if name == "n":
        return self          # the integer residue of a prime-field coordinate: the coordinate itself (embedding into F_p^12)
    return _coord_getattr0(self, name, it)


CoordOf.v_getattr = _coord_getattr


def embed_hook(it, cls, args, kwargs):
    """FQ12([c, 0, …, 0]) with c a formal coordinate is the embedded coordinate"""
    from .fieldmodel import field_kind
    if field_kind(cls, it.repo) is None or kwargs or len(args) != 1 or not isinstance(args[0], (list, tuple)):
        return NotImplemented
    cs = list(args[0])
    if cs and isinstance(cs[0], (CoordOf, DerivedCoord)) and all(isinstance(c, int) and c == 0 for c in cs[1:]):
        return cs[0]
    return NotImplemented


def as_point(v):
    """PSym, or a tuple of the formal coordinates (0, 1[, 2]) of one PSym"""
    if isinstance(v, PSym):
        return v
    if isinstance(v, tuple) and len(v) in (2, 3) and all(isinstance(c, CoordOf) for c in v):
        if len({id(c.pt) for c in v}) == 1 and [c.idx for c in v] == list(range(len(v))) and isinstance(v[0].pt, PSym):
            return v[0].pt
    return None


class PSym(GroupSym):
    """GroupSym with a twisted flag and a name"""

    def __init__(self, comb, tw=False, name=None):
        super().__init__(comb)
        self.tw, self.name = tw, name

    def v_compare(self, op, other, it):
        # comparison of a whole point with another value (a constant representative, None …): an opaque predicate
        if op in ("==", "!="):
            t = Term("point_eq", (self.name or repr(self), _hashable(other) if not isinstance(other, GroupSym) else repr(other)), "bool")
            return t if op == "==" else Term("not", (t,), "bool")
        return NotImplemented


def as_group(v, twisted_default=False):
    if isinstance(v, GroupSym):
        return v, getattr(v, "tw", twisted_default)
    if isinstance(v, tuple) and len(v) in (2, 3) and all(isinstance(c, Frob) for c in v):
        pts = {id(c.pt) for c in v}
        ks = {c.k for c in v}
        if len(pts) == 1 and len(ks) == 1 and [c.idx for c in v] == list(range(len(v))):
            k = v[0].k
            signs = [c.sign for c in v]
            base = v[0].pt
            # (x^p^k, ±y^p^k[, z^p^k]) is ±π^k(pt)
            if signs[0] == 1 and (len(v) == 2 or signs[2] == 1):
                s = signs[1]
                g = {(f"π^{k}", b): c * s for b, c in base.comb.items()}
                return PSym(g, getattr(base, "tw", False)), getattr(base, "tw", False)
    return None, None


class FSym(AbstractValue):
    """formal product of atoms with integer exponents"""
    sort = "field"

    def __init__(self, e=None, powered=None):
        self.e = {k: v for k, v in (e or {}).items() if v}
        self.powered = powered

    def v_binop(self, op, other, reflected, it):
        if op == "pow" and not reflected and isinstance(other, int):
            if 0 <= other <= 8 and self.powered is None:
                return FSym({k: v * other for k, v in self.e.items()})       # a small power is a repeated product
            it.emit("final_power", exponent=other, value=self)
            return FSym(self.e, other if self.powered is None else self.powered * other)
        o = other
        if isinstance(o, FieldVal) and o.kind == "FQP" and o.v == (1,) + (0,) * (len(o.v) - 1):
            o = FSym()
        if not isinstance(o, FSym):
            return NotImplemented
        if self.powered is not None or o.powered is not None:
            raise AnalysisError("arithmetic after the final power")
        a, b = (o, self) if reflected else (self, o)
        r = dict(a.e)
        sgn = 1 if op == "mul" else -1 if op == "truediv" else None
        if sgn is None:
            raise AnalysisError(f"operator {op} on a Miller value")
        for k, v in b.e.items():
            r[k] = r.get(k, 0) + sgn * v
        return FSym(r)

    def v_unpack(self, n, it):
        raise AnalysisError("unpacking a Miller value")


def analyse_miller(world, repo, modname, optimized, flag):
    """returns dict(ok, problems[], scalar comb of R, sequence, final_exponent, value FSym, nlines)"""
    it0 = Interp(world)
    m = repo.module(modname)
    f = repo.func(f"{modname}.miller_loop")
    p = it0.eval_global(m, "field_modulus")
    curve_order = it0.eval_global(m, "curve_order")
    seq = []            # ('line', A, B, tw) ('double', R) ('add', R, X)
    lines = []

    def q(n):
        r = repo.resolve_binding(m, n)
        if r is None or r[0] != "func":
            raise AnalysisError(f"anchor vanished: {modname} does not bind {n}")
        return r[1].qualname
    Q = PSym({"Q": Poly.const(1)}, tw=not (optimized and "bls" in modname), name="Q")
    Pt = PSym({"P": Poly.const(1)}, name="P")

    def s_double(it, fr, args, kw, node):
        g, tw = as_group(args[0])
        if g is None:
            raise AnalysisError(f"{it.where(node)}: double of a non-point")
        seq.append(("double", dict(g.comb), it.where(node)))
        return PSym({b: c * 2 for b, c in g.comb.items()}, tw)

    def s_add(it, fr, args, kw, node):
        a, ta = as_group(args[0])
        b, tb = as_group(args[1])
        if a is None or b is None:
            raise AnalysisError(f"{it.where(node)}: add of a non-point")
        seq.append(("add", dict(a.comb), dict(b.comb), it.where(node)))
        return PSym(a.plus(b).comb, ta)

    def s_neg(it, fr, args, kw, node):
        a, ta = as_group(args[0])
        return PSym({b: -c for b, c in a.comb.items()}, ta)

    def s_twist(it, fr, args, kw, node):
        a, ta = as_group(args[0])
        if ta:
            raise AnalysisError(f"{it.where(node)}: twist of a twisted point")
        return PSym(a.comb, True)

    def s_cast(it, fr, args, kw, node):
        return args[0]

    def s_line(it, fr, args, kw, node):
        a, ta = as_group(args[0])
        b, tb = as_group(args[1])
        t, _ = as_group(args[2])
        if a is None or b is None or t is None:
            raise AnalysisError(f"{it.where(node)}: linefunc on a non-point")
        idx = len(lines)
        lines.append((dict(a.comb), dict(b.comb), dict(t.comb), ta, tb, it.where(node)))
        seq.append(("line", idx))
        if optimized:
            return (FSym({("n", idx): 1}), FSym({("d", idx): 1}))
        return FSym({("l", idx): 1})
    summ = {q("double"): s_double, q("add"): s_add, q("twist"): s_twist, f"{modname}.linefunc": s_line,
            f"{modname}.cast_point_to_fq12": s_cast}
    if repo.resolve_binding(m, "neg"):
        summ[q("neg")] = s_neg

    def run(it):
        it.miller_p = p
        if optimized:
            return it.call_func(f, [Q, Pt], {"final_exponentiate": flag})
        return it.call_func(f, [Q, Pt], {})
    paths = enumerate_paths(world, run, summaries=summ)
    if len(paths) != 1 or paths[0].outcome != "return":
        return {"ok": False, "problems": [f"{len(paths)} paths / {paths[0].outcome}: the loop is not a straight-line chain for concrete loop parameters"],
                "f": f}
    val = paths[0].value
    problems = []
    if not isinstance(val, FSym):
        return {"ok": False, "problems": [f"returns {show(val)[:80]} instead of a Miller value"], "f": f}
    # ---- lock-step: replay the sequence
    R = {"Q": Poly.const(1)}
    expected = {}
    pending = None            # index of the last line not yet consumed by a point operation
    for ev in seq:
        if ev[0] == "line":
            if pending is not None:
                a, b, t, ta, tb, where = lines[pending]
                # a trailing line without point update is allowed only as the very last step (BN: −π²(Q))
                expected_add(expected, pending, optimized)
            pending = ev[1]
            a, b, t, ta, tb, where = lines[pending]
            if a != R:
                problems.append(f"line at {where} is taken through {fmt(a)} but the running point is {fmt(R)} (line/point out of step)")
            if ta != tb:
                problems.append(f"line at {where} mixes a twisted and an untwisted point")
            if t != {"P": Poly.const(1)}:
                problems.append(f"line at {where} is evaluated at {fmt(t)} instead of P")
        elif ev[0] == "double":
            if pending is None:
                problems.append(f"double at {ev[2]} without a preceding tangent line")
            else:
                a, b, t, ta, tb, where = lines[pending]
                if not (a == ev[1] and b == ev[1]):
                    problems.append(f"double of {fmt(ev[1])} at {ev[2]} preceded by the line through {fmt(a)}, {fmt(b)}")
                for k in list(expected):
                    expected[k] *= 2
                expected_add(expected, pending, optimized)
                pending = None
            if ev[1] != R:
                problems.append(f"double at {ev[2]} applied to {fmt(ev[1])}, running point {fmt(R)}")
            R = {b: c * 2 for b, c in R.items()}
        elif ev[0] == "add":
            if pending is None:
                problems.append(f"add at {ev[3]} without a preceding chord line")
            else:
                a, b, t, ta, tb, where = lines[pending]
                if not (a == ev[1] and b == ev[2]):
                    problems.append(f"add({fmt(ev[1])}, {fmt(ev[2])}) at {ev[3]} preceded by the line through {fmt(a)}, {fmt(b)}")
                expected_add(expected, pending, optimized)
                pending = None
            if ev[1] != R:
                problems.append(f"add at {ev[3]} applied to {fmt(ev[1])}, running point {fmt(R)}")
            g = GroupSym(R).plus(GroupSym(ev[2]))
            R = dict(g.comb)
    trailing = None
    if pending is not None:
        expected_add(expected, pending, optimized)
        trailing = lines[pending]
    got = dict(val.e)
    expected = {k: v for k, v in expected.items() if v}
    if got != expected:
        diff = {k: (got.get(k, 0), expected.get(k, 0)) for k in set(got) | set(expected) if got.get(k, 0) != expected.get(k, 0)}
        k0 = sorted(diff, key=str)[0]
        li = lines[k0[1]]
        problems.append(f"Miller value is not f ← f²·ℓ / f·ℓ in step with the point updates: line #{k0[1]} at {li[5]} has exponent "
                        f"{diff[k0][0]}, expected {diff[k0][1]} ({len(diff)} atoms differ)")
    return {"ok": not problems, "problems": problems, "R": R, "trailing": trailing, "value": val, "nlines": len(lines),
            "f": f, "p": p, "r": curve_order, "seq": [(e[0],) + tuple(fmt(x) if isinstance(x, dict) else x for x in e[1:-1]) if e[0] != "line"
                                                     else ("line", fmt(lines[e[1]][0]), fmt(lines[e[1]][1])) for e in seq]}


def expected_add(expected, idx, optimized):
    if optimized:
        expected[("n", idx)] = expected.get(("n", idx), 0) + 1
        expected[("d", idx)] = expected.get(("d", idx), 0) - 1
    else:
        expected[("l", idx)] = expected.get(("l", idx), 0) + 1


def fmt(comb):
    return " + ".join(f"[{c!r}]{b if isinstance(b, str) else b[0] + '(' + b[1] + ')'}" for b, c in comb.items()) or "O"


def analyse_pairing_entry(world, repo, modname, optimized, Qv="sym", Pv="sym"):
    """paths of pairing(Q, P[, flag]) with on-curve tests opaque and the Miller loop a sink"""
    it0 = Interp(world)
    m = repo.module(modname)
    f = repo.func(f"{modname}.pairing")
    b, b2 = it0.eval_global(m, "b"), it0.eval_global(m, "b2")
    ml = repo.func(f"{modname}.miller_loop")

    def q(n):
        r = repo.resolve_binding(m, n)
        if r is None or r[0] != "func":
            raise AnalysisError(f"anchor vanished: {modname} does not bind {n}")
        return r[1].qualname
    Q = PSym({"Q": Poly.const(1)}, name="Q") if Qv == "sym" else None
    Pt = PSym({"P": Poly.const(1)}, name="P") if Pv == "sym" else None
    flag = var("final_exponentiate", "bool")

    def s_onc(it, fr, args, kw, node):
        pt, coef = args
        if pt is None:
            return NotImplemented
        if not isinstance(pt, PSym):
            return Term("is_on_curve", ("derived point", _hashable(coef)), "bool")
        return Term("is_on_curve", (pt.name, _hashable(coef)), "bool")

    def s_ml(it, fr, args, kw, node):
        if args[0] is None or args[1] is None:
            return NotImplemented
        args = [as_point(a) or a for a in args[:2]] + list(args[2:])
        it.emit("miller", args=args, kw=kw, facts=dict(it.facts), node=node)
        return FSym({("miller",): 1})

    def s_twist(it, fr, args, kw, node):
        if args[0] is None:
            return NotImplemented
        if not isinstance(args[0], PSym):
            return ("not-the-validated-point", args[0])
        return PSym(args[0].comb, True, args[0].name)

    repo.func(f"{modname}.cast_point_to_fq12")          # walked, not summarised: its infinity handling is part of pairing()
    summ = {q("is_on_curve"): s_onc, ml.qualname: s_ml, q("twist"): s_twist}

    def run(it):
        it.allow_derived_coords = True
        if optimized:
            return it.call_func(f, [Q, Pt], {"final_exponentiate": flag})
        return it.call_func(f, [Q, Pt], {})
    paths = enumerate_paths(world, run, summaries=summ, class_hooks=[embed_hook])
    return {"paths": paths, "f": f, "b": _hashable(b), "b2": _hashable(b2), "flag": flag, "miller": ml}
