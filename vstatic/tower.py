"""Elements of F_p[X]/(X^d + m(X)) with polynomial (symbolic) coefficients —
used for the twist rule (C07.R4) and the Frobenius/exponent rules (C12)."""
from __future__ import annotations

from .term import AnalysisError, AbstractValue
from .poly import Poly, P
from .fieldmodel import FieldVal, field_kind
from .ecalg import FieldSym, FieldSymClass


class TowerSym(AbstractValue):
    sort = "field"

    def __init__(self, coeffs, mc, p, cls=None):
        self.c = tuple(c if isinstance(c, Poly) else Poly.const(c, p) for c in coeffs)
        self.c = tuple(Poly(c.t, p) for c in self.c)
        self.mc, self.p, self.cls = tuple(mc), p, cls
        if len(self.c) != len(self.mc):
            raise AnalysisError("tower element length mismatch")

    def _mk(self, coeffs):
        return TowerSym(coeffs, self.mc, self.p, self.cls)

    def _lift(self, o):
        if isinstance(o, TowerSym):
            if o.mc != self.mc or o.p != self.p:
                raise AnalysisError("tower elements from different fields")
            return o
        if isinstance(o, FieldVal) and o.kind == "FQP":
            if tuple(o.mc) != tuple(m % self.p for m in self.mc) or o.p != self.p:
                raise AnalysisError("tower constant from a different field")
            return self._mk(o.v)
        return None

    def _scalar(self, o):
        if isinstance(o, bool):
            o = int(o)
        if isinstance(o, int):
            return Poly.const(o, self.p)
        if isinstance(o, FieldSym):
            if not o.r.d.is_const() or o.r.d.const_value() != 1:
                raise AnalysisError("rational scalar in tower arithmetic")
            return Poly(o.r.n.t, self.p)
        if isinstance(o, FieldVal) and o.kind == "FQ":
            return Poly.const(o.v, self.p)
        return None

    def v_binop(self, op, other, reflected, it):
        if op == "pow":
            if reflected or not isinstance(other, int) or other < 0:
                raise AnalysisError("tower power")
            r = self._mk([1] + [0] * (len(self.c) - 1))
            b = self
            n = other
            while n:
                if n & 1:
                    r = r.mul(b)
                n >>= 1
                if n:
                    b = b.mul(b)
            return r
        o = self._lift(other)
        if o is not None:
            if op == "add":
                return self._mk([a + b for a, b in zip(self.c, o.c)])
            if op == "sub":
                a, b = (o, self) if reflected else (self, o)
                return self._mk([x - y for x, y in zip(a.c, b.c)])
            if op == "mul":
                return self.mul(o)
            if op == "truediv":
                if reflected:
                    raise AnalysisError("division by a symbolic tower element")
                if isinstance(other, FieldVal):
                    return self.mul(self._lift(other.inv()))
                raise AnalysisError("division by a symbolic tower element")
            raise AnalysisError(f"tower operator {op}")
        s = self._scalar(other)
        if s is not None:
            if op == "mul":
                return self._mk([a * s for a in self.c])
            raise AnalysisError(f"tower {op} scalar")
        return NotImplemented

    def mul(self, o):
        d = len(self.c)
        t = [Poly.const(0, self.p)] * (2 * d - 1)
        for i, a in enumerate(self.c):
            if a.is_zero():
                continue
            for j, b in enumerate(o.c):
                if b.is_zero():
                    continue
                t[i + j] = t[i + j] + a * b
        for k in range(2 * d - 2, d - 1, -1):
            top = t[k]
            if top.is_zero():
                continue
            for i, m in enumerate(self.mc):
                if m:
                    t[k - d + i] = t[k - d + i] - top * m
        return self._mk(t[:d])

    def __neg__(self):
        return self._mk([-a for a in self.c])

    def v_getattr(self, name, it):
        if name == "coeffs":
            return tuple(FieldSym(Poly(c.t, None)) for c in self.c)
        if name in ("one", "zero"):
            return lambda: self._mk(([1] if name == "one" else [0]) + [0] * (len(self.c) - 1))
        if name == "degree":
            return len(self.c)
        if name == "field_modulus":
            return self.p
        if name == "modulus_coeffs":
            return tuple(self.mc)
        raise AnalysisError(f"attribute {name} of a symbolic tower element")

    def v_type(self, it):
        if self.cls is None:
            raise AnalysisError("type() of a symbolic tower element of no stated class")
        return self.cls

    def is_zero(self):
        return all(c.is_zero() for c in self.c)

    def equals(self, o):
        return all((a - b).is_zero() for a, b in zip(self.c, o.c))

    def __repr__(self):
        return "[" + ", ".join(repr(c) for c in self.c) + "]"

    def __deepcopy__(self, memo):
        return self


def tower_ctor_hook(it, cls, args, kwargs):
    """class hook: FQ2/FQ12(coeffs) with symbolic coefficients -> TowerSym"""
    k = field_kind(cls, it.repo)
    if k is None or k[0] != "FQP" or kwargs or len(args) != 1:
        return NotImplemented
    coeffs = args[0]
    if not isinstance(coeffs, (list, tuple)):
        return NotImplemented
    if not any(isinstance(c, (FieldSym, Poly)) for c in coeffs):
        return NotImplemented
    p = it.class_attr(cls, "field_modulus")
    init = it.find_method(cls, "__init__")
    mcname = {"FQ2": "FQ2_MODULUS_COEFFS", "FQ12": "FQ12_MODULUS_COEFFS"}.get(init.cls.name)
    mc = it.class_attr(cls, mcname)
    cs = []
    for c in coeffs:
        if isinstance(c, FieldSym):
            if not c.r.d.is_const():
                raise AnalysisError("rational coefficient in a tower constructor")
            cs.append(Poly(c.r.n.t, p))
        elif isinstance(c, FieldVal):
            cs.append(Poly.const(c.v, p))
        else:
            cs.append(Poly.const(int(c), p))
    return TowerSym(cs, mc, p, cls)
