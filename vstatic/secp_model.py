"""secp256k1: shared obligations (Jacobian routines vs affine law) and summaries"""
from __future__ import annotations

from .term import AnalysisError
from .interp import World, Interp
from .poly import Poly, Rat
from .ecalg import FieldSym, FieldSymClass, PolyCond, alg_paths, AlgState
from .curvelaw import Rep, check_function, cases_add, cases_double, cases_normalize, tangent

SECP = "py_ecc.secp256k1.secp256k1"
ONE = [("finite",), ("inf",)]
TWO = [("finite", "finite"), ("finite", "inf"), ("inf", "finite"), ("inf", "inf")]


def secp_inv_summary(it, f, args, kwargs, node):
    """inv(a, n) on a symbolic field element: inv0 semantics (justified by the
    Euclid invariant rule C08.R4, which is checked for this copy of the routine)"""
    a, n = args
    if isinstance(a, FieldSym):
        if it.truth(PolyCond(a.r, True), node):
            return 0
        return FieldSym(Rat(Poly.const(1)) / a.r, a.cls, True)
    return NotImplemented


def _is00(v, st):
    return isinstance(v, tuple) and len(v) == 2 and all(
        (isinstance(c, int) and c == 0) or (isinstance(c, FieldSym) and st.is_zero(c.r) is True) for c in v)


def _double_table(a):
    def t(X):
        if X is None:
            return [("2·O", [], ("inf",))]
        x1, y1 = X
        return [("y≠0 (tangent)", [(y1, "ne")], tangent(X, a)), ("y=0 (order 2)", [(y1, "eq")], ("inf",))]
    return t


def secp_jacobian_obligations(chk, rule, repo, w):
    def record(f, obs, npaths):
        for o in obs:
            chk.ob(rule, f.qualname, f"{o.combo} | {o.case}", o.ok, o.detail, f.where)
        return npaths
    it0 = Interp(w)
    Pmod = it0.eval_global(repo.module(SECP), "P")
    A = it0.eval_global(repo.module(SECP), "A")
    cls = FieldSymClass(modulus=Pmod)
    jac = Rep("jac", cls)
    aff = Rep("affine", cls)
    inv = repo.func(f"{SECP}.inv")
    kw = dict(summaries={inv.qualname: secp_inv_summary})
    unreduced = []
    npaths = 0

    def call_of(f):
        def c(it, a):
            r = it.call_func(f, list(a), {})
            for ev in it.events:
                if ev["kind"] == "unreduced_compare":
                    unreduced.append((f.qualname, ev["where"], ev["expr"]))
            return r
        return c
    f = repo.func(f"{SECP}.jacobian_double")
    npaths += record(f, *check_function(w, call_of(f), jac, jac, ONE, _double_table(A), **kw))
    f = repo.func(f"{SECP}.jacobian_add")
    npaths += record(f, *check_function(w, call_of(f), jac, jac, TWO, cases_add, **kw))
    f = repo.func(f"{SECP}.to_jacobian")
    npaths += record(f, *check_function(w, call_of(f), aff, jac, [("finite",)], cases_normalize, **kw))
    f = repo.func(f"{SECP}.from_jacobian")
    npaths += record(f, *check_function(w, call_of(f), jac, aff, [("finite",)], cases_normalize, **kw))
    it = Interp(w, summaries={inv.qualname: secp_inv_summary})
    tj = repo.func(f"{SECP}.to_jacobian")
    r = it.call_func(tj, [(0, 0)], {})
    chk.ob(rule, tj.qualname, "(0,0) ↦ identity class (0,0,*)", isinstance(r, tuple) and len(r) == 3 and r[0] == 0 and r[1] == 0,
           f"to_jacobian((0,0)) = {r!r}", tj.where)
    z = FieldSym.var("z", cls)
    fj = repo.func(f"{SECP}.from_jacobian")
    ps = alg_paths(w, lambda it: it.call_func(fj, [(0, 0, z)], {}), AlgState(), **kw)
    ok = all(p.outcome == "return" and _is00(p.value, p.alg) for p in ps)
    chk.ob(rule, fj.qualname, "identity (0,0,z) ↦ (0,0) for every z including 0", ok,
           f"{len(ps)} paths: {[p.value for p in ps][:3]!r}", fj.where)
    chk.ob(rule, SECP, "integer ==/truth tests only on values reduced mod P", not unreduced,
           "; ".join(f"{q}: {e} at {w_}" for q, w_, e in unreduced[:3]), "py_ecc/secp256k1/secp256k1.py")
    return npaths
